"""C03: transfer state changes always follow the documented state graph; a refused request
has no side effect.

The real TransferState subclasses (every public method, through the real `_with_state_lock`
wrapper installed by `_wrap_lock`), `Transfer.transition / cancel_tasks / set_*_time / reset_*`,
`_remove_local_file` and `TransferManager.abort / queue / pause` run on the virtual loop.  The
data a transfer carries (reasons, timestamps, clock readings, sizes, counters, flags) are z3
values; which state class, which request, which direction and the schedule are enumerated.

Oracle: the pinned table spec/transfer_edges.json.
"""
from __future__ import annotations

import asyncio
import json
import os
import types

from engine import symex
from engine.symex import SBool, SInt, SReal
from engine.vloop import VLoop

import aioslsk.transfer.model as md_mod
import aioslsk.transfer.state as st_mod
from aioslsk.exceptions import InvalidStateTransition
from aioslsk.transfer.manager import TransferManager, _RequestFlag
from aioslsk.transfer.model import Transfer, TransferDirection
from aioslsk.transfer.state import TransferState

PROPERTY = 'C03'

_VERIF = os.path.dirname(os.path.dirname(os.path.abspath(__file__)))
SPEC = json.load(open(os.path.join(_VERIF, 'spec', 'transfer_edges.json')))
STATES = list(SPEC['states'])
RAW_OPS = ['queue', 'pause', 'abort', 'fail', 'complete', 'incomplete', 'initialize', 'start_transferring']
MGR_OPS = ['m_queue', 'm_pause', 'm_abort']          # the same requests through TransferManager.queue/pause/abort
OPS = RAW_OPS + MGR_OPS
TASK_OPS = ['initialize', 'queue', 'fail', 'incomplete', 'start_transferring', 'complete']   # what transfer tasks request in manager.py
DIRECTIONS = ['DOWNLOAD', 'UPLOAD']
_MISSING = object()


# ------------------------------------------------------------------------------------------
# oracle (reads nothing but the pinned table)
# ------------------------------------------------------------------------------------------

def op_name(op):
    return op[2:] if op.startswith('m_') else op


def target(op, direction):
    t = SPEC['target'][op_name(op)]
    return t[direction] if isinstance(t, dict) else t


def allowed(state, op):
    """may the request be performed in this state?  ('optional': documented but not implemented at
    the baseline - performing and refusing are both fine)"""
    return op_name(op) in SPEC['allowed'][state] or op_name(op) in SPEC.get('optional', {}).get(state, [])


def edges(direction):
    return {(s, target(o, direction)) for s in STATES for o in RAW_OPS if allowed(s, o)}


def valid_pre_state(state, direction):
    return state not in SPEC['unreachable_for_direction'][direction]


# ------------------------------------------------------------------------------------------
# observation layer (adds observers, changes no behaviour)
# ------------------------------------------------------------------------------------------

def _cur_task():
    try:
        return asyncio.current_task()
    except RuntimeError:
        return None


class ObsTransfer(Transfer):
    """the real Transfer; attribute writes are additionally logged as (task, name, old, new)"""

    def __setattr__(self, name, value):
        log = self.__dict__.get('_obs_log')
        if log is not None:
            log.append((_cur_task(), name, self.__dict__.get(name, _MISSING), value))
        object.__setattr__(self, name, value)


class ObsLock(asyncio.Lock):
    """a real asyncio.Lock that reports who got it"""

    def __init__(self, world):
        super().__init__()
        self.world = world

    async def acquire(self):
        r = await super().acquire()
        self.world.on_lock_acquired(_cur_task())
        return r

    def n_waiters(self):
        return len([w for w in (self._waiters or ()) if not w.done()])


class ObsTask(asyncio.Task):
    """a real asyncio.Task that reports who asked to cancel it"""

    def cancel(self, msg=None):
        w = getattr(self, 'world', None)
        if w is not None and not w.closing:
            w.cancel_events.append((_cur_task(), self.get_name()))
        return super().cancel(msg)


class Clock:
    """time.time()/time.monotonic() of transfer.model: every reading is a fresh real, non-decreasing"""

    def __init__(self, c, world):
        self.c = c
        self.world = world
        self.last = {}
        self.n = 0

    def _read(self, kind):
        t = self.c.fresh_real(f'clock_{kind}{self.n}', lo=0)
        self.n += 1
        if kind in self.last:
            self.c.assume(t >= self.last[kind])
        self.last[kind] = t
        self.world.clock_reads.append((_cur_task(), kind))
        return t

    def time(self):
        return self._read('time')

    def monotonic(self):
        return self._read('monotonic')


class FakeFs:
    """in-memory stand-in for aiofiles.os as used by transfer/state.py (`asyncos.path.exists`,
    `asyncos.remove`); each call is a suspension point when the world is slow"""

    def __init__(self, world, files):
        self.world = world
        self.files = set(files)
        self.removed = []
        self.path = types.SimpleNamespace(exists=self.exists)

    async def exists(self, p):
        await self.world.hop('fs_exists')
        return p in self.files

    async def remove(self, p):
        await self.world.hop('fs_remove')
        if p not in self.files:
            raise FileNotFoundError(p)
        self.files.discard(p)
        self.removed.append((_cur_task(), p))


class Recorder:
    """a TransferStateListener"""

    def __init__(self, world):
        self.world = world

    async def on_transfer_state_changed(self, transfer, old, new):
        self.world.changes.append((_cur_task(), old.name, new.name))
        # what the listener can read on the transfer at this moment
        self.world.change_snap.append({k: transfer.__dict__.get(k, _MISSING)
                                       for k in ('fail_reason', 'abort_reason', 'remotely_queued')})
        await self.world.hop('listener')


# every reason string the library itself knows (FailReason / AbortReason), the empty string and two foreign ones
REASONS = ['', 'Cancelled', 'Complete', 'Queued', 'File not shared.', 'File read error.', 'Requested', 'Blocked',
           'File not shared', 'Remote file error', 'Banned']


class SReason:
    """a reason string: a symbolic index into REASONS.  Supports what code does with a reason: store
    it, compare it (with another reason or a literal; forks when used in `if`), test its truth."""
    __slots__ = ('i',)

    def __init__(self, i):
        self.i = i

    def __eq__(self, o):
        if isinstance(o, SReason):
            return self.i == o.i
        if isinstance(o, str):
            return (self.i == REASONS.index(o)) if o in REASONS else False
        return False

    def __ne__(self, o):
        r = self.__eq__(o)
        return (not r) if isinstance(r, bool) else ~r

    def __bool__(self):
        return bool(self.i != REASONS.index(''))

    def __hash__(self):
        return hash(REASONS[int(self.i)])

    def __repr__(self):
        return '<SReason>'

    __str__ = __repr__

    def __format__(self, spec):
        return '<SReason>'


def tok(c, base, prefix=None):
    """reason: symbolic member of REASONS while exploring / the string itself in concrete replay"""
    v = c.fresh_int(base, 0, len(REASONS) - 1)
    return SReason(v) if c.symbolic else REASONS[v]


class World:
    """one transfer with observers, file model, task model and clock, on a fresh virtual loop"""

    def __init__(self, c, direction, slow):
        self.c = c
        self.slow = slow
        self.closing = False
        self.loop = VLoop()
        self.direction = direction
        self.parked = []
        self.changes = []           # (task, old, new) as seen by the listener
        self.change_snap = []       # aligned with changes: reasons / remotely_queued as readable at the notification
        self.cancel_events = []     # (task that asked, name of the cancelled transfer task)
        self.clock_reads = []
        self.recs = []
        self.clock = Clock(c, self)
        self.local_file = '/c03-virtual/dl/f.bin' if direction == 'DOWNLOAD' else '/c03-virtual/share/f.bin'
        self.fs = FakeFs(self, [self.local_file])
        self.transfer = self.loop.call(ObsTransfer, 'peer', 'share\\f.bin', TransferDirection[direction])
        self.lock = self.loop.call(ObsLock, self)
        self.transfer._state_lock = self.lock
        mgr = object.__new__(TransferManager)
        mgr._transfers = [self.transfer]
        mgr._management_queue = self.loop.call(asyncio.Queue, 1)
        mgr._management_flags = _RequestFlag(0)
        self.manager = mgr
        # what TransferManager.add does, plus one independent listener
        self.transfer.state_listeners.append(mgr)
        self.transfer.state_listeners.append(Recorder(self))
        self._saved = None

    # ---- environment --------------------------------------------------------------------
    def __enter__(self):
        self._saved = [(md_mod, 'time', md_mod.__dict__.get('time', _MISSING)),
                       (st_mod, 'asyncos', st_mod.__dict__.get('asyncos', _MISSING))]
        md_mod.__dict__['time'] = types.SimpleNamespace(time=self.clock.time, monotonic=self.clock.monotonic)
        st_mod.__dict__['asyncos'] = self.fs
        return self

    def __exit__(self, *a):
        for mod, k, v in self._saved:
            if v is _MISSING:
                mod.__dict__.pop(k, None)
            else:
                mod.__dict__[k] = v
        self.closing = True
        self.slow = False
        self.loop.cleanup()
        return False

    async def hop(self, name):
        """a place where the real system waits for something (thread pool, socket close, user
        listener); suspends for one virtual second when the world is slow"""
        if self.slow:
            self.parked.append(name)
            try:
                await asyncio.sleep(1.0)
            finally:
                self.parked.remove(name)

    # ---- pre-state ------------------------------------------------------------------------
    def set_symbolic_fields(self, present):
        """every data field of the transfer becomes an arbitrary value; `present` says which of
        the Optional fields are not None (discriminants: the code tests `is None`)"""
        c, t = self.c, self.transfer
        t.fail_reason = tok(c, 'fail_reason', 'F') if present['fail_reason'] else None
        t.abort_reason = tok(c, 'abort_reason', 'A') if present['abort_reason'] else None
        t.start_time = c.fresh_real('start_time', lo=0) if present['start_time'] else None
        t.complete_time = c.fresh_real('complete_time', lo=0) if present['complete_time'] else None
        t.filesize = c.fresh_int('filesize', 0, 2 ** 64 - 1) if present['filesize'] else None
        t.bytes_transfered = c.fresh_int('bytes_transfered', 0, 2 ** 64 - 1)
        t.remotely_queued = c.fresh_bool('remotely_queued')
        t.place_in_queue = c.fresh_int('place_in_queue', 0, 2 ** 32 - 1) if present['place_in_queue'] else None
        t.queue_attempts = c.fresh_int('queue_attempts', 0, None)
        t.last_queue_attempt = c.fresh_real('last_queue_attempt', lo=0)
        t.upload_request_attempts = c.fresh_int('upload_request_attempts', 0, None)
        t.last_upload_request_attempt = c.fresh_real('last_upload_request_attempt', lo=0)
        t.local_path = self.local_file if present['local_path'] else None

    def set_state(self, state):
        self.transfer.state = TransferState.init_from_state(TransferState.State[state], self.transfer)

    def attach_tasks(self, which):
        """what manage_transfers / _on_peer_transfer_request do: a task per slot with the real
        done-callback that clears the slot.  The task waits for the peer for ever; when cancelled it
        needs a moment to close its connection when the world is slow."""
        t = self.transfer
        for key, slot, cb, name in (('transfer', '_transfer_task', t._transfer_task_complete, 'transfer-task'),
                                    ('queue', '_remotely_queue_task', t._remotely_queue_task_complete, 'queue-remotely-task')):
            if key not in which:
                continue
            if getattr(t, slot) is not None:
                continue
            task = self.loop.call(ObsTask, self._task_body(), loop=self.loop, name=name)
            task.world = self
            self.loop.created_tasks.append(task)
            task.add_done_callback(cb)
            object.__setattr__(t, slot, task)
        self.loop.run_ready()

    async def _task_body(self):
        try:
            await self.loop.create_future()
        except asyncio.CancelledError:
            await self.hop('task_cancel')
            raise

    def start_observing(self):
        object.__setattr__(self.transfer, '_obs_log', [])

    @property
    def log(self):
        return self.transfer.__dict__['_obs_log']

    # ---- requests -------------------------------------------------------------------------
    def issue(self, op, reason=None, remotely=False, style='kw', by_task=False):
        """a caller executes `await transfer.state.<op>(...)` (or the TransferManager call), exactly
        as manager.py does: the attribute `transfer.state` is read when the call is made.  With
        `by_task` the caller is the transfer's own task (`_transfer_task`), which carries on waiting
        for its peer afterwards (so a later abort/pause cancels it, possibly while it is still queued
        for the lock)."""
        t, mgr = self.transfer, self.manager
        rec = {'i': len(self.recs), 'op': op, 'captured': None, 'result': _MISSING, 'exc': None, 'run_state': None,
               'overlaps': False, 'by_task': by_task, 'cancelled_while_pending': False, 'style': style}
        # what the documentation promises about an accepted request (USAGE.rst "Possible States": a FAILED transfer
        # carries fail_reason, an ABORTED one abort_reason "which specifies why"; "Requested" = aborted upon request)
        # (fail() without a reason: fail_reason None is what marks a FAILED download as retryable; abort() without a
        # reason is never issued by manager.py - no expectation)
        if op == 'fail' or (op == 'abort' and style != 'none'):
            rec['expect_reason'] = None if style == 'none' else reason
        elif op == 'm_abort':
            rec['expect_reason'] = 'Requested'
        elif op == 'queue' and style != 'none':
            rec['expect_remotely'] = remotely

        async def caller():
            rec['captured'] = t.state.VALUE.name
            rec['captured_obj'] = t.state
            rec['overlaps'] = any(r is not rec and r['captured'] is not None and 'answered' not in r for r in self.recs)
            rec['found'] = {'t': self.loop.time(), 'lock_held': self.lock.locked(), 'lock_queue': self.lock.n_waiters(),
                            'suspended_hops': list(self.parked)}
            try:
                if op == 'm_queue':
                    await mgr.queue(t)
                    rec['result'] = True
                elif op == 'm_pause':
                    await mgr.pause(t)
                    rec['result'] = True
                elif op == 'm_abort':
                    await mgr.abort(t)
                    rec['result'] = True
                # argument passing as in manager.py: `queue()` / `queue(remotely=True)`; `fail()` /
                # `fail(reason=x)` / `fail(x)`; `abort(reason=x)`
                elif op == 'queue' and style == 'none':
                    rec['result'] = await t.state.queue()
                elif op == 'queue':
                    rec['result'] = await t.state.queue(remotely=remotely)
                elif op in ('fail', 'abort') and style == 'none':
                    rec['result'] = await getattr(t.state, op)()
                elif op in ('fail', 'abort') and style == 'pos':
                    rec['result'] = await getattr(t.state, op)(reason)
                elif op in ('fail', 'abort'):
                    rec['result'] = await getattr(t.state, op)(reason=reason)
                else:
                    rec['result'] = await getattr(t.state, op)()
            except InvalidStateTransition as e:
                rec['result'] = False
                rec['exc'] = e
            except asyncio.CancelledError:
                rec['cancelled_while_pending'] = True
                raise
            except Exception as e:  # noqa
                rec['exc'] = e
            rec['answered'] = True
            if by_task:
                await self._task_body()

        name = f'request-{rec["i"]}-{op}'
        if by_task:
            if t._transfer_task is not None:
                raise symex.HarnessError('transfer task slot already occupied')
            task = self.loop.call(ObsTask, caller(), loop=self.loop, name=name)
            task.world = self
            self.loop.created_tasks.append(task)
            task.add_done_callback(t._transfer_task_complete)
            object.__setattr__(t, '_transfer_task', task)
            rec['task'] = task
        else:
            rec['task'] = self.loop.spawn(caller(), name=name)
        # The caller makes its call *now*: its first step goes to the front of the ready queue, ahead of callbacks
        # that are already scheduled (e.g. the wake-up of a lock waiter after the holder released the lock).  Arriving
        # behind them is the same as arriving now at a later step boundary, which is offered as well.
        # (Not for by_task: there the transfer's task is *created* now and starts when the loop gets to it - abort/pause
        # may cancel it before it has run at all.)
        ready = self.loop._ready
        if len(ready) > 1 and not by_task:
            ready.appendleft(ready.pop())
        self.recs.append(rec)
        return rec

    def issue_deferred(self, op, reason=None, remotely=False, style='kw'):
        """"created earlier, started later": the call `transfer.state.<op>(...)` is made NOW (the coroutine object is
        bound to the state object of this moment, as the coroutines manage_shares_changed collects for gather are) but
        it only starts to run when rec['start']() is called."""
        t = self.transfer
        st = t.state
        rec = {'i': len(self.recs), 'op': op, 'captured': st.VALUE.name, 'captured_obj': st, 'result': _MISSING, 'exc': None,
               'run_state': None, 'overlaps': False, 'by_task': False, 'cancelled_while_pending': False, 'style': style,
               'task': None, 'deferred': True, 'found': {'created_at': self.loop.time()}}
        if op == 'fail' or (op == 'abort' and style != 'none'):
            rec['expect_reason'] = None if style == 'none' else reason
        elif op == 'queue' and style != 'none':
            rec['expect_remotely'] = remotely
        m = getattr(st, op)
        if op == 'queue':
            coro = m() if style == 'none' else m(remotely=remotely)
        elif op in ('fail', 'abort'):
            coro = m() if style == 'none' else m(reason) if style == 'pos' else m(reason=reason)
        else:
            coro = m()

        async def caller():
            rec['found']['started_at'] = self.loop.time()
            try:
                rec['result'] = await coro
            except InvalidStateTransition as e:
                rec['result'] = False
                rec['exc'] = e
            except Exception as e:  # noqa
                rec['exc'] = e
            rec['answered'] = True

        def start():
            rec['task'] = self.loop.spawn(caller(), name=f'deferred-{rec["i"]}-{op}')
        rec['start'] = start
        self.recs.append(rec)
        return rec

    def fresh_args(self, i, op, rich=2):
        """(reason, remotely, style).  style: how the caller passes the argument - 'none' (left out), 'kw'
        (keyword), 'pos' (positional; manager.py does that for fail only).  rich=2: every style manager.py uses
        (fail: none/kw/pos, abort: none/kw, queue: none/kw); rich=1: fail/abort none/kw, queue kw; rich=0: always by
        keyword (three-request scenarios: the styles are not multiplied into the schedules)."""
        c = self.c
        reason, remotely, style = None, False, 'kw'
        if op == 'fail' and rich:
            style = c.pick(['none', 'kw', 'pos'] if rich == 2 else ['none', 'kw'], f'arg_style{i}')
        elif op == 'abort' and rich:
            style = c.pick(['none', 'kw'], f'arg_style{i}')
        elif op == 'queue' and rich == 2:
            style = c.pick(['none', 'kw'], f'arg_style{i}')
        if op in ('fail', 'abort') and style != 'none':
            reason = tok(c, f'reason_arg{i}', 'R')
        elif op == 'queue' and style != 'none':
            remotely = c.fresh_bool(f'remotely_arg{i}')
        return reason, remotely, style

    def on_lock_acquired(self, task):
        # the state the request finds when it (last) gets the lock is the state it runs in
        for rec in self.recs:
            if rec.get('task') is task and 'answered' not in rec:
                rec['run_state'] = self.transfer.state.VALUE.name
                rec['outdated'] = self.transfer.state is not rec.get('captured_obj')

    def rec_of(self, task):
        for rec in self.recs:
            if rec.get('task') is task:
                return rec
        return None

    # ---- scheduling ---------------------------------------------------------------------------
    def settle(self, horizon=60.0):
        """run until nothing is scheduled any more (slow hops are timers)"""
        self.loop.run_until_quiet(max_time=horizon)

    def sched_sig(self, coarse=False):
        """what a newly arriving request would find; a further request is offered only where this differs"""
        return (len(self.recs), len(self.changes), self.transfer.state.VALUE.name, self.lock.locked(),
                self.lock.n_waiters(), () if coarse else tuple(self.parked),
                tuple('answered' in r or r['task'].done() for r in self.recs))

    def snapshot(self):
        t = self.transfer
        d = {k: t.__dict__.get(k, _MISSING) for k in FIELDS}
        d['#tasks_cancelling'] = tuple(x.cancelling() if x is not None else None
                                       for x in (t._transfer_task, t._remotely_queue_task))
        d['#files'] = frozenset(self.fs.files)
        return d


FIELDS = ['state', 'direction', 'username', 'remote_path', 'local_path', 'remotely_queued', 'place_in_queue',
          'fail_reason', 'abort_reason', 'filesize', 'bytes_transfered', 'queue_attempts', 'last_queue_attempt',
          'upload_request_attempts', 'last_upload_request_attempt', 'start_time', 'complete_time',
          '_transfer_task', '_remotely_queue_task']
VALUE_FIELDS = [f for f in FIELDS if f not in ('state', '_transfer_task', '_remotely_queue_task')]


def same(a, b):
    """value equality; symbolic when either side is (-> SBool, decided by z3 in c.check)"""
    if a is b:
        return True
    if a is None or b is None or a is _MISSING or b is _MISSING:
        return False
    if isinstance(a, (SInt, SReal, SBool, SReason)):
        return a == b
    if isinstance(b, (SInt, SReal, SBool, SReason)):
        return b == a
    return a == b


def outcome(rec):
    if rec['by_task'] and 'answered' not in rec and rec['task'].done() and rec['task'].cancelled():
        return 'cancelled'          # the transfer's own task was cancelled by an abort/pause before it got an answer
    if 'answered' not in rec:
        return 'unanswered'
    if rec['exc'] is not None and not isinstance(rec['exc'], InvalidStateTransition):
        return 'error'
    if rec['result'] is True:
        return 'accepted'
    if rec['result'] is False:
        return 'refused'
    return 'error'


# ------------------------------------------------------------------------------------------
# obligations
# ------------------------------------------------------------------------------------------

def judge_accepted_effects(c, w, rec, idxs, sig):
    """clause (d): what the documentation promises about an accepted abort / fail (/ queue): listeners that are
    told ABORTED (FAILED) can read the reason the request carried - for all reasons r (symbolic), however the
    caller passed it, and also when the request had to wait for the lock and was performed on a newer state.
    `idxs`: indices into w.changes of the changes made by this request."""
    opn = op_name(rec['op'])
    info = {'request': rec['op'], 'argument_style': rec['style']}
    if 'expect_reason' in rec:
        tgt, field = ('ABORTED', 'abort_reason') if opn == 'abort' else ('FAILED', 'fail_reason')
        label = f'accepted_{opn}_stores_reason'
        hits = [i for i in idxs if w.changes[i][2] == tgt]
        c.check(bool(hits), label, sig=sig, info=dict(info, problem=f'accepted but listeners were not told {tgt}'))
        if hits:
            c.reach('accepted_reason_checked')
            if rec.get('outdated'):
                c.reach('stale_accepted_reason_checked')
            c.check(same(w.change_snap[hits[-1]][field], rec['expect_reason']), label, sig=sig,
                    info=dict(info, problem=f'{field} readable at the {tgt} notification is not the reason of the request'))
    if 'expect_remotely' in rec:
        hits = [i for i in idxs if w.changes[i][2] == 'QUEUED']
        c.check(bool(hits), 'accepted_queue_sets_remotely', sig=sig, info=dict(info, problem='accepted but listeners were not told QUEUED'))
        if hits:
            c.check(same(w.change_snap[hits[-1]]['remotely_queued'], rec['expect_remotely']), 'accepted_queue_sets_remotely',
                    sig=sig, info=dict(info, problem='remotely_queued at the QUEUED notification is not the `remotely` argument'))


def judge_sequential(c, w, rec, pre, state, sig):
    """one request that ran alone, from `state` (clauses (a) and (b))"""
    direction = w.direction
    out = outcome(rec)
    E = edges(direction)
    mine = [ch for ch in w.changes[pre['#n_changes']:]]
    c.check(out in ('accepted', 'refused'), 'request_answered', sig=sig,
            info={'outcome': out, 'exc': repr(rec['exc'])})
    if not allowed(state, rec['op']):
        c.check(out == 'refused', 'disallowed_request_refused', sig=sig, info={'outcome': out})
    # (a) what listeners saw
    c.check(len(mine) <= 1, 'at_most_one_change', sig=sig, info={'changes': [m[1:] for m in mine]})
    prev = state
    for _, old, new in mine:
        c.check((old, new) in E, 'observed_change_is_edge', sig=sig, info={'old': old, 'new': new})
        c.check(old == prev, 'observed_old_is_previous_state', sig=sig, info={'old': old, 'previous': prev})
        prev = new
    now = w.transfer.state.VALUE.name
    c.check(now == prev or (prev, now) in E, 'final_state_reached_by_edge', sig=sig, info={'last_seen': prev, 'now': now})
    if out == 'accepted':
        c.reach('accepted')
        judge_accepted_effects(c, w, rec, list(range(pre['#n_changes'], len(w.changes))), sig)
    # (b) refusal has no side effect
    if out == 'refused':
        c.reach('refused')
        post = w.snapshot()
        c.check(not mine, 'refused_no_listener_call', sig=sig, info={'changes': [m[1:] for m in mine]})
        c.check(post['state'] is pre['state'], 'refused_no_state_change', sig=sig, info={'now': now})
        for f in VALUE_FIELDS:
            c.check(same(pre[f], post[f]), 'refused_no_field_change', sig=sig + [f])
        c.check(post['#files'] == pre['#files'] and len(w.fs.removed) == pre['#n_removed'], 'refused_no_file_removed', sig=sig)
        c.check(post['_transfer_task'] is pre['_transfer_task'] and post['_remotely_queue_task'] is pre['_remotely_queue_task']
                and post['#tasks_cancelling'] == pre['#tasks_cancelling'] and len(w.cancel_events) == pre['#n_cancels'],
                'refused_no_task_cancelled', sig=sig)
    return out


def snapshot_with_counts(w):
    pre = w.snapshot()
    pre['#n_changes'] = len(w.changes)
    pre['#n_removed'] = len(w.fs.removed)
    pre['#n_cancels'] = len(w.cancel_events)
    return pre


def present_pattern(c, full):
    keys = ['start_time', 'complete_time', 'filesize', 'place_in_queue', 'fail_reason', 'abort_reason', 'local_path']
    if full:
        return {k: c.choose(2, f'present_{k}') == 1 for k in keys}
    st = c.choose(2, 'present_start_time') == 1
    rest = c.choose(2, 'present_others') == 1
    return {k: (st if k == 'start_time' else rest) for k in keys}


# ------------------------------------------------------------------------------------------
# H1: one request from an arbitrary state (inductive step: covers sequences of any length)
# ------------------------------------------------------------------------------------------

def h_step(c, state, direction, full=False, ops=None):
    op = c.pick(ops or OPS, 'op')
    slow = c.choose(2, 'slow') == 1
    tasks = c.pick(['', 'transfer+queue'] if not full else ['', 'transfer', 'queue', 'transfer+queue'], 'tasks')
    present = present_pattern(c, full)
    with World(c, direction, slow) as w:
        w.set_symbolic_fields(present)
        w.set_state(state)
        w.attach_tasks(tasks)
        reason, remotely, style = w.fresh_args(0, op)
        w.start_observing()
        pre = snapshot_with_counts(w)
        rec = w.issue(op, reason, remotely, style)
        w.settle()
        judge_sequential(c, w, rec, pre, state, [state, op, direction])
        c.reach('step_end')


# ------------------------------------------------------------------------------------------
# H2: sequences from the constructor state through the public calls
# ------------------------------------------------------------------------------------------

def h_sequence(c, direction, first, k=3, slow=True):
    with World(c, direction, slow) as w:
        t = w.transfer
        w.start_observing()
        state = 'VIRGIN'
        for i in range(k):
            op = first[i] if i < len(first) else c.pick(RAW_OPS, f'op{i}')
            # environment between two requests: manager code outside this property stores sizes,
            # progress and queue bookkeeping and (re)starts tasks
            object.__setattr__(t, 'filesize', c.fresh_int(f'filesize{i}', 0, 2 ** 64 - 1))
            object.__setattr__(t, 'bytes_transfered', c.fresh_int(f'bytes_transfered{i}', 0, 2 ** 64 - 1))
            object.__setattr__(t, 'place_in_queue', c.fresh_int(f'place_in_queue{i}', 0, 2 ** 32 - 1))
            object.__setattr__(t, 'queue_attempts', c.fresh_int(f'queue_attempts{i}', 0, None))
            if t.local_path is None and direction == 'DOWNLOAD' and state in ('INITIALIZING', 'DOWNLOADING'):
                object.__setattr__(t, 'local_path', w.local_file)
                w.fs.files.add(w.local_file)
            w.attach_tasks('transfer+queue')
            reason, remotely, style = w.fresh_args(i, op, rich=1)
            pre = snapshot_with_counts(w)
            rec = w.issue(op, reason, remotely, style)
            w.settle(horizon=w.loop.time() + 60.0)
            judge_sequential(c, w, rec, pre, state, [state, op, direction])
            state = t.state.VALUE.name
            if state not in STATES:
                break
        c.reach('sequence_end')


# ------------------------------------------------------------------------------------------
# H3: two / three requests overlapping in time (clause (c), and (b) per request)
# ------------------------------------------------------------------------------------------

def h_overlap(c, state, direction, op_a, n=2, slow=True, ops=None, by_task=None, start_time='set', coarse=False):
    """`by_task`: index of the request that is issued by the transfer's own task (else None)"""
    ops_list = [op_a] + [c.pick(ops or OPS, f'op{i}') for i in range(1, n)]
    present = {k: True for k in ('complete_time', 'filesize', 'place_in_queue', 'fail_reason', 'abort_reason', 'local_path')}
    present['start_time'] = (c.choose(2, 'present_start_time') == 1) if start_time == 'both' else True
    with World(c, direction, slow) as w:
        w.set_symbolic_fields(present)
        w.set_state(state)
        w.attach_tasks('transfer+queue' if by_task is None else 'queue')
        args = [w.fresh_args(i, op, rich=(0 if n > 2 else 1 if i == 0 else 2)) for i, op in enumerate(ops_list)]
        w.start_observing()
        loop = w.loop
        issued = 0
        last_sig = None
        guard = 0
        while True:
            guard += 1
            if guard > 5000:
                raise symex.HarnessError('overlap scenario does not terminate')
            if issued < n:
                # a further request may arrive at every point where the situation it would find differs
                force = issued == 0
                sig_now = w.sched_sig(coarse)
                if force or sig_now != last_sig:
                    last_sig = sig_now
                    if force or c.choose(2, 'arrives_now') == 1:
                        w.issue(ops_list[issued], *args[issued], by_task=(by_task == issued))
                        issued += 1
                        last_sig = None
                        continue
            if loop.step():
                continue
            nt = loop.next_timer()
            if nt is not None and nt <= 600.0:
                loop._time = max(loop._time, nt)
                continue
            if issued < n:
                w.issue(ops_list[issued], *args[issued], by_task=(by_task == issued))
                issued += 1
                last_sig = None
                continue
            break
        c.reach('overlap_end')
        judge_overlap(c, w, state, ops_list)


# ------------------------------------------------------------------------------------------
# H4: a request coroutine created on one state object and started after another request changed the state
# ------------------------------------------------------------------------------------------

def h_deferred(c, state, direction):
    first = c.pick(OPS, 'first_op')
    late = c.pick(RAW_OPS, 'deferred_op')
    present = {k: True for k in ('start_time', 'complete_time', 'filesize', 'place_in_queue', 'fail_reason', 'abort_reason',
                                 'local_path')}
    with World(c, direction, False) as w:
        w.set_symbolic_fields(present)
        w.set_state(state)
        w.attach_tasks('transfer+queue')
        args_late = w.fresh_args(0, late, rich=1)
        args_first = w.fresh_args(1, first, rich=0)
        w.start_observing()
        rec_late = w.issue_deferred(late, *args_late)          # created at t0 ...
        w.issue(first, *args_first)
        w.settle()                                             # ... another request runs to completion ...
        rec_late['start']()                                    # ... only now does the early coroutine start
        w.settle()
        c.reach('deferred_end')
        judge_overlap(c, w, state, [late + ' (created first, started last)', first])


# ------------------------------------------------------------------------------------------
# H5: TransferManager.manage_shares_changed (real manager) racing with the upload task's complete() / fail()
# ------------------------------------------------------------------------------------------

def h_shares_cycle(c, state):
    """an upload that the shares / block-list evaluation wants aborted (or not), a shares cycle of the real
    TransferManager, and the upload task finishing (complete / fail) in the same loop iterations; which ready
    callback runs next is a discriminant (VLoop picker).  Reasons are written only by the state machine: a transfer
    that listeners never saw ABORTED keeps its abort_reason; one that became ABORTED carries the evaluated reason."""
    from engine import fakes_transfer as ft
    from aioslsk.user.model import BlockingFlag
    kind = c.pick(['allowed', 'blocked', 'not_shared', 'blocked+not_shared'], 'share_situation')
    competitor = c.pick(['none', 'complete', 'fail'], 'competitor')
    present = {k: True for k in ('start_time', 'complete_time', 'filesize', 'place_in_queue', 'fail_reason', 'local_path')}
    present['abort_reason'] = c.choose(2, 'present_abort_reason') == 1
    direction = 'UPLOAD'
    with World(c, direction, False) as w:
        t = w.transfer
        rw = w.loop.call(ft.build_world, w.loop)
        mgr = rw.manager
        blocked, shared = 'blocked' in kind, 'not_shared' not in kind
        if blocked:
            rw.settings.users.blocked = {t.username: BlockingFlag.UPLOADS}
        item = rw.shares.find_shared_item_cache(t.remote_path)
        rw.shares.find_shared_item_cache = lambda p, u=None: item if shared else None
        mgr._transfers.append(t)
        t.state_listeners[0] = mgr              # the real manager instead of the skeleton one
        w.manager = mgr
        w.set_symbolic_fields(present)
        w.set_state(state)
        pre_abort, pre_fail = t.abort_reason, t.fail_reason
        args = w.fresh_args(0, competitor, rich=1) if competitor != 'none' else None
        w.start_observing()
        w.loop.picker = lambda n: c.choose(n, 'next_ready')
        cycle = w.loop.spawn(mgr.manage_shares_changed(), name='shares-cycle')
        rec = w.issue(competitor, *args) if args is not None else None
        w.settle()
        w.loop.picker = None
        c.reach('shares_cycle_end')
        c.check(cycle.done() and not cycle.cancelled() and cycle.exception() is None, 'request_answered',
                sig=[state, 'shares_cycle'], info={'problem': 'manage_shares_changed did not finish normally'})
        # the reason the evaluation arrives at (AbortReason: Requested > Blocked > File not shared)
        if pre_abort is not None and bool(pre_abort == 'Requested'):
            expected = 'Requested'
        elif blocked:
            expected = 'Blocked'
        elif not shared:
            expected = 'File not shared'
        else:
            expected = None
        sig = [state, kind, competitor]
        E = edges(direction)
        prev = state
        for i, (_, old, new) in enumerate(w.changes):
            c.check((old, new) in E, 'observed_change_is_edge', sig=sig, info={'old': old, 'new': new})
            c.check(old == prev or (prev, old) in E, 'observed_old_is_previous_state', sig=sig, info={'old': old, 'previous': prev})
            prev = new
            if new == 'ABORTED':
                c.reach('shares_abort_performed')
                c.check(expected is not None and same(w.change_snap[i]['abort_reason'], expected), 'aborted_with_evaluated_reason',
                        sig=sig, info={'expected': expected})
        now = t.state.VALUE.name
        c.check(now == prev or (prev, now) in E, 'final_state_reached_by_edge', sig=sig, info={'last_seen': prev, 'now': now})
        told = [new for _, _, new in w.changes]
        if state != 'ABORTED' and 'ABORTED' not in told:
            if expected is not None and state not in ('COMPLETE', 'FAILED'):
                c.reach('shares_abort_refused_or_skipped')
            c.check(same(pre_abort, t.abort_reason), 'unaborted_transfer_keeps_abort_reason', sig=sig,
                    info={'state_now': now, 'problem': 'abort_reason changed although listeners never saw the transfer ABORTED'})
        if state == 'ABORTED' and now == 'ABORTED' and expected is not None:
            c.check(same(t.abort_reason, expected), 'aborted_with_evaluated_reason', sig=sig, info={'expected': expected})
        if 'FAILED' not in told and not (state == 'ABORTED' and 'QUEUED' in told):
            c.check(same(pre_fail, t.fail_reason), 'unfailed_transfer_keeps_fail_reason', sig=sig, info={'state_now': now})
        if rec is not None:
            out = outcome(rec)
            c.check(out in ('accepted', 'refused'), 'request_answered', sig=sig, info={'outcome': out, 'exc': repr(rec['exc'])})
            if out == 'accepted':
                judge_accepted_effects(c, w, rec, [i for i, ch in enumerate(w.changes) if ch[0] is rec['task']], sig)
        if not c.symbolic:
            c.note(f'shares situation {kind}, competitor {competitor}, listener saw: ' + ', '.join(f'{o}->{n}' for _, o, n in w.changes))
            c.note(f'abort_reason before {pre_abort!r} after {t.abort_reason!r}; final state {now}')


def judge_overlap(c, w, state, ops_list):
    direction = w.direction
    E = edges(direction)
    base = [state, direction]

    def rsig(rec):
        if rec is None:
            return base + ['unattributed']
        rs = rec['run_state']
        kind = 'no_lock' if rs is None else ('stale' if rec.get('outdated') else 'fresh')   # stale: another state object by now
        return [kind, rec['captured'], rs, rec['op']]

    if not c.symbolic:
        for r in w.recs:
            c.note(f"request {r['i']} {r['op']}: made in state {r['captured']} finding {r.get('found')}; "
                   f"ran in state {r['run_state']}; outcome {outcome(r)}")
        c.note('listener saw: ' + ', '.join(f'{o}->{n}' for _, o, n in w.changes))
    if any(r['overlaps'] for r in w.recs):
        c.reach('overlapped')           # a request was made while an earlier one was still being processed
    if any(r.get('outdated') for r in w.recs):
        c.reach('captured_state_outdated_when_run')
    # (c) everything listeners saw is an edge, and the observations chain
    prev = state
    for task, old, new in w.changes:
        rec = w.rec_of(task)
        sig = rsig(rec)
        c.check((old, new) in E, 'observed_change_is_edge', sig=sig, info={'old': old, 'new': new, 'requests': ops_list})
        c.check(old == prev or (prev, old) in E, 'observed_old_is_previous_state', sig=sig,
                info={'old': old, 'previous': prev, 'requests': ops_list})
        prev = new
    now = w.transfer.state.VALUE.name
    c.check(now == prev or (prev, now) in E, 'final_state_reached_by_edge', sig=base, info={'last_seen': prev, 'now': now})
    for rec in w.recs:
        sig = rsig(rec)
        out = outcome(rec)
        task = rec['task']
        c.check(out in ('accepted', 'refused', 'cancelled'), 'request_answered', sig=sig,
                info={'outcome': out, 'exc': repr(rec['exc']), 'requests': ops_list})
        if out == 'cancelled':
            c.reach('own_task_request_cancelled')
        mine = [ch for ch in w.changes if ch[0] is task]
        c.check(len(mine) <= 1, 'at_most_one_change', sig=sig, info={'changes': [m[1:] for m in mine]})
        if rec['run_state'] is not None and not allowed(rec['run_state'], rec['op']):
            # the state this request found when it got the lock does not allow it
            c.check(out == 'refused', 'disallowed_request_refused', sig=sig,
                    info={'outcome': out, 'state_when_run': rec['run_state'], 'requests': ops_list})
        if out == 'accepted':
            c.reach('accepted')
            judge_accepted_effects(c, w, rec, [i for i, ch in enumerate(w.changes) if ch[0] is task], sig)
        if out == 'refused':
            c.reach('refused')
            c.check(not mine, 'refused_no_listener_call', sig=sig, info={'changes': [m[1:] for m in mine]})
            for wtask, name, old, new in w.log:
                if wtask is not task:
                    continue
                if name == 'state':
                    c.check(old is new, 'refused_no_state_change', sig=sig)
                elif name in ('_transfer_task', '_remotely_queue_task'):
                    c.check(old is new, 'refused_no_task_cancelled', sig=sig)
                else:
                    c.check(same(old, new), 'refused_no_field_change', sig=sig + [name])
            c.check(not [x for x in w.fs.removed if x[0] is task], 'refused_no_file_removed', sig=sig)
            c.check(not [x for x in w.cancel_events if x[0] is task], 'refused_no_task_cancelled', sig=sig)


# ------------------------------------------------------------------------------------------
# module interface
# ------------------------------------------------------------------------------------------

def _real_functions():
    fns = [st_mod._with_state_lock, st_mod._remove_local_file, TransferState._wrap_lock, TransferState.init_from_state,
           TransferState._cancel_transfer_tasks, TransferState._stop_transfer]
    for cls in [TransferState] + list(TransferState.__subclasses__()):
        for name in RAW_OPS:
            f = cls.__dict__.get(name)
            if f is not None:
                fns.append(f)
    fns += [Transfer.transition, Transfer.cancel_tasks, Transfer.set_start_time, Transfer.set_complete_time,
            Transfer.reset_time_vars, Transfer.reset_queue_vars, Transfer.reset_progress_vars, Transfer.reset_local_vars,
            Transfer.reset_queue_attempts, Transfer.reset_upload_request_attempts, Transfer.is_download,
            Transfer.is_upload, Transfer.is_transfered, Transfer._transfer_task_complete,
            Transfer._remotely_queue_task_complete,
            TransferManager.abort, TransferManager.queue, TransferManager.pause,
            TransferManager.on_transfer_state_changed, TransferManager.request_management_cycle,
            TransferManager.manage_shares_changed, TransferManager._evaluate_aborted_state]
    return fns


META = {
    'level': 'other',
    'technique': 'symbolic execution of the real transfer state machine on z3 Int/Real/Bool proxies (reasons, timestamps, clock '
                 'readings, sizes, counters, flags); every branch on them forks; the refusal clause is a z3 equality query per '
                 'field; state class, request, direction and the schedule of overlapping requests are enumerated discriminants '
                 'on a virtual event loop; counterexample models are replayed concretely',
    'explanation': 'Every public method of every TransferState subclass is called through the real _with_state_lock wrapper '
                   '(as installed by _wrap_lock) and Transfer.transition, and TransferManager.abort/queue/pause are called on a '
                   'manager holding the transfer, on a deterministic virtual-time loop. A listener records every (old,new); the '
                   'pinned table spec/transfer_edges.json says which are edges and which (state, request) pairs must be refused. '
                   'H1 step: one request from each of the 10 state classes with all data fields arbitrary (inductive step for '
                   'sequences of any length). H2 sequence: k requests from the constructor state. H3 overlap: 2 (thorough: 3) '
                   'requests; a later request arrives at every point at which the situation it finds (state object, lock holder '
                   'and queue, suspended hop, finished requests) differs, including while task cancellation, file removal or a '
                   'listener keeps the lock holder suspended; the arriving caller makes its call at once, i.e. ahead of callbacks '
                   'that are already scheduled (such as the wake-up of a lock waiter after the holder released the lock). Refusals '
                   'are attributed to the request by an attribute write log. H4 deferred: the request coroutine is created on the '
                   'state object of t0 (as manage_shares_changed does for gather) and started after another request ran. H5 '
                   'shares_cycle: manage_shares_changed of a real TransferManager (real constructor, Settings, EventBus, UserManager; '
                   'fake network / shares) on an upload that is blocked / no longer shared / allowed, racing with the upload '
                   'task\'s complete() / fail(); the next ready callback is chosen by the solver-driven picker.',
    'functions': _real_functions(),
    'stubs': ['transfer.state.asyncos (aiofiles.os) -> in-memory file model FakeFs (path.exists / remove), each call optionally a '
              '1 s suspension; validated against real aiofiles.os in the prelude',
              'transfer.model.time -> time()/monotonic() return fresh non-decreasing symbolic reals',
              'asyncio event loop -> engine.vloop.VLoop (virtual time)',
              'Transfer instance is of the subclass ObsTransfer which only adds a write log in __setattr__',
              'Transfer._state_lock is replaced by an asyncio.Lock subclass instance that reports acquisitions',
              'transfer tasks (_transfer_task / _remotely_queue_task) are asyncio.Task subclass instances (report cancel()) running '
              '"wait for ever; on cancellation optionally take 1 s", with the real done-callbacks of Transfer attached',
              'TransferManager built with object.__new__ and only _transfers / _management_queue / _management_flags (H1-H4)',
              'H5: engine.fakes_transfer.build_world - real TransferManager/Settings/EventBus/UserManager, FakeNetwork, FakeShares '
              '(find_shared_item_cache answers as the scenario says), user tracking a no-op; blocking through the real settings.users.blocked',
              'fail/abort reasons are a symbolic index into a fixed vocabulary (all FailReason/AbortReason constants, the empty string, two foreign strings) with ==, != and truth value; the strings themselves in concrete replay'],
    'data_variables': ['fail_reason / abort_reason and the reason argument (symbolic member of an 11-string vocabulary incl. every FailReason/AbortReason constant; None as discriminant)',
                       'start_time, complete_time, every time.time()/monotonic() reading (Real >= 0, readings non-decreasing)',
                       'filesize, bytes_transfered (Int 0..2^64-1)', 'place_in_queue (Int 0..2^32-1)',
                       'queue_attempts, upload_request_attempts (Int >= 0)', 'last_queue_attempt, last_upload_request_attempt (Real >= 0)',
                       'remotely_queued and the `remotely` argument (Bool)'],
    'discriminants': ['state class (10)', 'request (8 state methods + 3 TransferManager calls)', 'direction (2)',
                      'None-ness of each Optional field', 'which task slots are occupied', 'hops suspend or not',
                      'arrival point of the 2nd / 3rd request (schedule)',
                      'how the caller passes the argument (left out / keyword / positional, as manager.py does)',
                      'deferred: (state, request that runs first, request created earlier and started later)',
                      'shares_cycle: upload state, share situation (allowed / blocked / not shared / both), competitor (none / complete / fail), '
                      'order of ready callbacks (VLoop picker)'],
    'bounds': {'quick': {'step': 'all states x 11 requests x 2 directions; None-ness: start_time x all-others',
                         'sequence': 'k=3 requests from the constructor',
                         'overlap': '2 requests, all states, 11x11, slow hops; 3 requests behind a slow abort/pause in 4 states',
                         'deferred': 'all states x 11 first requests x 8 deferred requests', 'shares_cycle': 'all upload states x 4 x 3, every callback order'},
               'thorough': {'step': 'all 2^7 None-ness patterns, 4 task-slot patterns', 'sequence': 'k=4',
                            'overlap': '2 requests 11x11 slow and fast; 3 requests 11x8x8 slow'}},
    'outside': ['more than three overlapping requests', 'the callers in manager.py (which request they issue when) - only the three '
                'public TransferManager calls are executed', 'read_cache assigning transfer.state directly',
                'real aiofiles threads and real file system', 'listeners that themselves issue requests (would deadlock on the non-reentrant lock)',
                'whether an allowed request is accepted, and side effects of accepted requests other than the documented reason '
                '(abort_reason / fail_reason) and the remotely_queued flag'],
    'assumptions': ['uploads are never in DOWNLOADING and downloads never in UPLOADING (preserved by the checked edges, which are direction aware)',
                    'asyncio.Lock is FIFO-fair (CPython 3.12)', 'time.time()/time.monotonic() do not go backwards'],
}


def jobs(tier):
    q = tier == 'quick'
    out = []
    for d in DIRECTIONS:
        for s in STATES:
            if not valid_pre_state(s, d):
                continue
            if q:
                out.append({'harness': 'step', 'fn': h_step, 'params': {'state': s, 'direction': d},
                            'requires': ['accepted', 'refused', 'step_end'] +
                                        (['accepted_reason_checked'] if 'abort' in SPEC['allowed'][s] or 'fail' in SPEC['allowed'][s] else [])})
            else:
                for op in OPS:
                    out.append({'harness': 'step', 'fn': h_step, 'params': {'state': s, 'direction': d, 'full': True, 'ops': [op]},
                                'requires': ['step_end']})
    for d in DIRECTIONS:
        for a in RAW_OPS:
            if q:
                out.append({'harness': 'sequence', 'fn': h_sequence, 'params': {'direction': d, 'first': [a], 'k': 3},
                            'requires': ['sequence_end']})
            else:
                for b in RAW_OPS:
                    out.append({'harness': 'sequence', 'fn': h_sequence, 'params': {'direction': d, 'first': [a, b], 'k': 4},
                                'requires': ['sequence_end']})
    for d in DIRECTIONS:
        for s in STATES:
            if not valid_pre_state(s, d):
                continue
            for a in OPS:
                req = ['overlap_end']
                if op_name(a) in SPEC['allowed'][s]:
                    req.append('overlapped')
                req2 = list(req)
                if op_name(a) == 'pause' and op_name(a) in SPEC['allowed'][s] and s != 'VIRGIN':
                    # a later abort(reason=r) / fail(reason=r) waits for the lock and is performed on PAUSED
                    req2.append('stale_accepted_reason_checked')
                out.append({'harness': 'overlap', 'fn': h_overlap,
                            'params': {'state': s, 'direction': d, 'op_a': a, 'n': 2, 'start_time': 'set' if q else 'both'},
                            'requires': req2})
                if q and a in ('abort', 'pause') and s in ('QUEUED', 'INITIALIZING', 'DOWNLOADING', 'UPLOADING'):
                    # three overlapping requests behind a slow first one (quick tier: slow first requests only)
                    out.append({'harness': 'overlap', 'fn': h_overlap,
                                'params': {'state': s, 'direction': d, 'op_a': a, 'n': 3, 'ops': RAW_OPS, 'coarse': True},
                                'requires': req})
                if not q:
                    out.append({'harness': 'overlap', 'fn': h_overlap,
                                'params': {'state': s, 'direction': d, 'op_a': a, 'n': 2, 'slow': False, 'start_time': 'both'},
                                'requires': ['overlap_end']})
                    if a in RAW_OPS:
                        out.append({'harness': 'overlap', 'fn': h_overlap,
                                    'params': {'state': s, 'direction': d, 'op_a': a, 'n': 3, 'ops': RAW_OPS, 'coarse': True},
                                    'requires': req})
    # a request coroutine created on one state object, started after another request changed the state
    for d in DIRECTIONS:
        for s in STATES:
            if valid_pre_state(s, d):
                out.append({'harness': 'deferred', 'fn': h_deferred, 'params': {'state': s, 'direction': d},
                            'requires': ['deferred_end', 'captured_state_outdated_when_run']})
    # the real TransferManager's shares cycle racing with the upload task finishing
    for s in STATES:
        if valid_pre_state(s, 'UPLOAD'):
            req = ['shares_cycle_end']
            if s in ('VIRGIN', 'QUEUED', 'INITIALIZING', 'UPLOADING', 'PAUSED'):
                req.append('shares_abort_refused_or_skipped')
            if s in ('QUEUED', 'INITIALIZING', 'UPLOADING', 'PAUSED', 'INCOMPLETE'):
                req.append('shares_abort_performed')
            out.append({'harness': 'shares_cycle', 'fn': h_shares_cycle, 'params': {'state': s}, 'requires': req})
    # requests issued by the transfer's own task ("transfer tasks finishing"): the task is what abort/pause cancel
    for d in DIRECTIONS:
        for s in (['INITIALIZING', 'DOWNLOADING', 'UPLOADING'] if q else ['QUEUED', 'INITIALIZING', 'DOWNLOADING', 'UPLOADING', 'INCOMPLETE']):
            if not valid_pre_state(s, d):
                continue
            for a in (['abort', 'pause'] if q else OPS):
                req = ['overlap_end']
                if op_name(a) in ('abort', 'pause') and allowed(s, a):
                    req.append('own_task_request_cancelled')
                out.append({'harness': 'overlap', 'fn': h_overlap,
                            'params': {'state': s, 'direction': d, 'op_a': a, 'n': 2, 'ops': TASK_OPS, 'by_task': 1}, 'requires': req})
            for a in (['complete', 'fail'] if q else TASK_OPS):
                out.append({'harness': 'overlap', 'fn': h_overlap,
                            'params': {'state': s, 'direction': d, 'op_a': a, 'n': 2, 'by_task': 0}, 'requires': ['overlap_end']})
    return out


def prelude(tier):
    notes = []
    # 1. the pinned table speaks about exactly the states the code has
    names = sorted(m.name for m in TransferState.State if m.name != 'UNSET')
    if names != sorted(STATES) or sorted(SPEC['allowed']) != sorted(STATES):
        raise symex.HarnessError(f'spec/transfer_edges.json does not list the states of TransferState.State: {names}')
    for s, ops in list(SPEC['allowed'].items()) + list(SPEC.get('optional', {}).items()):
        for o in ops:
            if o not in RAW_OPS:
                raise symex.HarnessError(f'unknown request {o} in spec')
    for o in RAW_OPS:
        if not asyncio.iscoroutinefunction(getattr(TransferState, o, None)):
            raise symex.HarnessError(f'TransferState.{o} is not a coroutine function any more')
    notes.append(f'spec: {len(STATES)} states, {sum(len(v) for v in SPEC["allowed"].values())} allowed (state, request) pairs')
    # 2. the documented state table names the same states (VIRGIN is internal)
    try:
        import aioslsk
        usage = os.path.join(os.path.dirname(os.path.dirname(os.path.dirname(os.path.abspath(aioslsk.__file__)))),
                             'docs', 'source', 'USAGE.rst')
        text = open(usage).read()
        missing = [s for s in STATES if s != 'VIRGIN' and f'| {s} ' not in text]
        if missing:
            raise symex.HarnessError(f'USAGE.rst state table does not mention {missing}')
        notes.append('USAGE.rst "Possible States" lists the 9 public states of the spec')
    except OSError:
        notes.append('USAGE.rst not found next to the source tree (skipped)')
    # 3. file model against real aiofiles.os
    import tempfile
    from aiofiles import os as real_asyncos

    async def real_fs():
        d = tempfile.mkdtemp(prefix='c03-')
        p = os.path.join(d, 'f.bin')
        open(p, 'wb').write(b'x')
        r = [await real_asyncos.path.exists(p)]
        await real_asyncos.remove(p)
        r.append(await real_asyncos.path.exists(p))
        try:
            await real_asyncos.remove(p)
            r.append('no error')
        except OSError as e:
            r.append(type(e).__name__)
        os.rmdir(d)
        return r

    async def fake_fs():
        w = types.SimpleNamespace(slow=False)

        async def hop(name):
            return None
        w.hop = hop
        fs = FakeFs(w, ['p'])
        r = [await fs.path.exists('p')]
        await fs.remove('p')
        r.append(await fs.path.exists('p'))
        try:
            await fs.remove('p')
            r.append('no error')
        except OSError as e:
            r.append(type(e).__name__)
        return r

    real = asyncio.run(real_fs())
    fake = VLoop().run_until_complete(fake_fs())
    if real != fake:
        raise symex.HarnessError(f'file model disagrees with aiofiles.os: real {real} model {fake}')
    notes.append(f'file model == aiofiles.os on exists/remove/remove-missing: {real}')
    # 4. observers see the running task on the virtual loop
    loop = VLoop()
    seen = []

    async def who():
        seen.append(asyncio.current_task())
    t = loop.spawn(who())
    loop.run_ready()
    if seen != [t]:
        raise symex.HarnessError('asyncio.current_task() does not work on the virtual loop')
    return notes
