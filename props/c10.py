"""C10: connection life cycle is monotone and the connection registry is exact.

The REAL Network / DataConnection / PeerConnection / ServerConnection / ListeningConnection code (connect, disconnect,
set_state, accept, on_peer_accepted, _make_direct_connection, _make_indirect_connection, _handle_connect_to_peer,
create_peer_connection (fallback and race), on_state_changed, remove_peer_connection, reader loop, send path, server
watchdog) runs on the virtual loop over transport fakes (engine/c10env.py).

Mixed technique, stated honestly (docs/C10.md has the assessment):
* decided by z3 over data: what becomes of an accepted connection as a function of the bytes of its first frame
  (fully symbolic body, symbolic obfuscation key, symbolic PeerInit fields, symbolic PeerPierceFirewall ticket against
  the symbolic tickets of the pending indirect attempts) - registered + CONNECTED iff an independent reference decoder
  says "valid init", CLOSED once + deregistered otherwise; which pending attempt a pierce-firewall completes;
* enumerated: how and when a connection ends (end kind, position of the fault, the loop step at which a concurrent
  disconnect / cancellation / send / remote close is injected).  On every such path the life-cycle clauses are
  evaluated by an observer on the real event bus while every byte, ticket, name, port that flows through the real code
  is a z3 term (all values at once), but the verdict of those clauses does not depend on the data.
"""
from __future__ import annotations

import asyncio

import z3

from engine import symex, codec, c10env
from engine.codec import SWord
from engine.vloop import VLoop
from engine.c02env import le_value, v_eq, v_ugt, terms, cut
from engine.c10env import (Observer, TicketMap, ticket_source, kind_of, le, frame, peer_init, pierce_firewall,
                           peer_place_in_queue_reply, distributed_branch_level, server_get_user_status,
                           server_connect_to_peer, server_get_peer_address, server_cannot_connect, obfuscate)

import aioslsk.protocol.messages as M
import aioslsk.protocol.obfuscation as O
from aioslsk.events import EventBus
from aioslsk.network.connection import (Connection, DataConnection, ServerConnection, PeerConnection, ListeningConnection,
                                        PeerConnectionState, ConnectionState, CloseReason)
from aioslsk.network.network import Network, PeerConnectMode
from aioslsk.settings import Settings, CredentialsSettings, ReconnectSettings

PROPERTY = 'C10'
HORIZON = 150.0          # virtual seconds after the last scripted event (covers every time-out of the code: 5, 10, 60, 60)
MAX_STEPS = 900

CLAUSES = ['state_reports_move_forward', 'nothing_reported_after_closed', 'closed_reported_exactly_once',
           'no_delivery_after_closed', 'no_send_after_closed', 'registry_exact_at_quiescence', 'shutdown_completes']


class NoOverrides:
    """settings.debug.ip_overrides (empty) while user names are symbolic: get() without hashing"""

    def get(self, k, default=None):
        return default


def _at(c, var, s):
    """is the (symbolic) step index `var` equal to the current boundary s?  forks once per boundary"""
    return bool(var == s)


def _zb(x):
    """python bool / SBool / z3 Bool -> python bool or z3 Bool"""
    if isinstance(x, symex.SBool):
        e = z3.simplify(x.e)
        return True if z3.is_true(e) else False if z3.is_false(e) else e
    return x


def w_eq(a, b):
    """equality of two 32-bit values (python int / SWord): python bool or z3 Bool"""
    if isinstance(a, int) and isinstance(b, int):
        return a == b
    return _zb(a == b)


# ------------------------------------------------------------------------------------------------------------------
# world: real Network on the virtual loop
# ------------------------------------------------------------------------------------------------------------------

class World:
    def __init__(self, c, loop, st, g, mode='fallback', reconnect=False, prefer_obf=False):
        self.c, self.loop, self.st, self.g = c, loop, st, g
        settings = Settings(credentials=CredentialsSettings(username='me', password='pw'))
        settings.network.upnp.enabled = False
        settings.network.server.reconnect = ReconnectSettings(auto=reconnect, timeout=2)
        settings.network.peer.connect_mode = PeerConnectMode.RACE if mode == 'race' else PeerConnectMode.FALLBACK
        settings.network.peer.obfuscate = prefer_obf
        self.bus = EventBus()
        self.net = loop.call(Network, settings, self.bus)
        self.obs = Observer(self.net, st, self.bus)
        self.tickets: list = []
        self.net._ticket_generator = ticket_source(c, g, self.tickets)
        if c.symbolic:
            self.net._expected_connection_futures = TicketMap()
            self.net._ip_overrides = NoOverrides()
        self.server_wire = None

    def start(self, server_reader=True):
        """Network.initialize(): listening ports + server connection; like SoulSeekClient.login the server reader"""
        self.loop.run_until_complete(self.net.initialize())
        self.server_wire = self.st.attempts[0].wire
        if server_reader:
            self.loop.call(self.net.server_connection.start_reader_task)
        self.loop.run_ready()

    def incoming(self, obf_port, peer=('9.9.9.9', 999)):
        lc = self.net.listening_connections[1 if obf_port else 0]
        srv = self.st.servers[lc.port]
        w = self.st.wire(peer, ('10.0.0.1', lc.port), 'in')
        task = srv.incoming(self.loop, w.reader, w.writer)
        w.accept_task = task
        return w, task


class Run:
    """drives the loop one callback at a time; scripted events happen at idle moments, injected actions at a
    (symbolic) step index; evaluates the registry clause at every idle moment"""

    def __init__(self, c, loop, W, st):
        self.c, self.loop, self.W, self.st = c, loop, W, st
        self.script: list = []
        self.inj: list = []
        self.s = 0
        self.idle_moments = 0
        self.fired: list = []
        self._reg_seen = set()
        self.cause = 'none'

    def inject(self, name, fire, var=None):
        if var is None:
            var = self.c.fresh_int(f'step_{name}', 0, MAX_STEPS)
        self.inj.append({'name': name, 'var': var, 'fire': fire, 'done': False})
        return var

    def bind(self):
        """which connection object owns an accepted transport: read from the frame of the running accept callback (the
        local `connection` of ListeningConnection.accept), NOT from the registry - whether it is registered is an obligation"""
        for w in self.st.wires:
            if w.owner is not None or getattr(w, 'accept_task', None) is None:
                continue
            coro = w.accept_task.get_coro()
            fr = getattr(coro, 'cr_frame', None)
            x = fr.f_locals.get('connection') if fr is not None and fr.f_code.co_name == 'accept' else None
            if not (isinstance(x, PeerConnection) and x._writer is w.writer):
                # the callback already returned (the whole first frame was buffered): the connection it created has reported
                # something by now; it is the incoming one that holds this transport / was built from this peer address
                owned = {id(o.owner) for o in self.st.wires if o.owner is not None}
                known = [y for y in self.W.obs.conns.values() if isinstance(y, PeerConnection) and y.incoming and id(y) not in owned]
                peer = w.writer.info['peername']
                x = next((y for y in known if y._writer is w.writer), None) or \
                    next((y for y in known if (y.hostname, y.port) == tuple(peer)), None)
            if x is not None:
                w.owner = x
                self.W.obs.see(x)
            elif w.accept_task.done():
                raise symex.HarnessError('accept callback ended and the connection it created never showed up')

    def wait(self, dt):
        """scripted pause: the next scripted event happens dt virtual seconds later (time-outs and injections go on)"""
        box = {}

        def arm():
            box['until'] = self.loop.time() + dt
            self.loop.call_later(dt, lambda: None)
        self.script.append(arm)
        self.script.append((lambda: self.loop.time() >= box['until'], lambda: None))

    def quiescent(self):
        self.idle_moments += 1
        for conn, what, why in self.W.obs.registry_verdict():
            key = (id(conn), what, why)
            if key in self._reg_seen:
                continue
            self._reg_seen.add(key)
            last = self.W.obs.last(conn) if conn is not None else None
            self.W.obs.violations.append(('registry_exact_at_quiescence',
                                          [kind_of(conn) if conn is not None else '-', what, why, last.name if last is not None else 'UNREPORTED'],
                                          {'t': self.loop.time(), 'state': conn.state.name if conn is not None else None,
                                           'reports': [s.name for s in self.W.obs.states(conn)] if conn is not None else None}))

    def go(self, horizon):
        c, loop = self.c, self.loop
        while True:
            for i in self.inj:
                if not i['done'] and _at(c, i['var'], self.s):
                    i['done'] = True
                    self.fired.append(i['name'])
                    c.note(f't={loop.time():.2f} step={self.s} inject {i["name"]}')
                    i['fire']()
            self.s += 1
            if self.s > MAX_STEPS:
                raise symex.BoundHit('scenario longer than the step bound')
            if loop.step():
                self.bind()
                continue
            self.quiescent()
            if self.script:
                ev = self.script[0]
                pred, fn = ev if isinstance(ev, tuple) else (None, ev)
                if pred is None or pred():
                    self.script.pop(0)
                    fn()
                    self.bind()
                    continue
                # not ready yet (e.g. still connecting): wait for the next timer
            nt = loop.next_timer()
            if nt is None or nt > horizon:
                return
            loop._time = max(loop._time, nt)

    # ---- end of path: final shutdown, then the clauses -----------------------------------------------------
    def finish(self, sig):
        c, loop, W, obs = self.c, self.loop, self.W, self.W.obs
        c.reach('scenario_ran')
        for i in self.inj:
            i['done'] = True          # an action that has not happened by now does not happen
        t = loop.spawn(W.net.disconnect(), name='final-shutdown')
        self.go(loop.time() + 30)
        if not t.done():
            obs.violations.append(('shutdown_completes', ['pending'], None))
        # a later disconnect() of a connection that was reported CLOSED is a no-op (anything it reports is seen by the clauses)
        late = [x for x in obs.conns.values() if isinstance(x, DataConnection) and any(s_ == ConnectionState.CLOSED for s_ in obs.states(x))]
        for x in late:
            loop.spawn(x.disconnect(CloseReason.REQUESTED), name='late-disconnect')
        if late:
            self.go(loop.time() + 10)
        # exactly once per life (a life ends with CLOSED; only the server connection starts another one with CONNECTING)
        for conn in obs.conns.values():
            st = obs.states(conn)
            if not st:
                continue
            lives, cur = [], []
            for s_ in st:
                if s_ == ConnectionState.CONNECTING and cur and cur[-1] == ConnectionState.CLOSED:
                    lives.append(cur)
                    cur = []
                cur.append(s_)
            lives.append(cur)
            for life in lives:
                n_closed = sum(1 for s_ in life if s_ == ConnectionState.CLOSED)
                if n_closed != 1:
                    obs.violations.append(('closed_reported_exactly_once', [kind_of(conn), 'never' if n_closed < 1 else 'more_than_once'],
                                           {'reports': [s_.name for s_ in st]}))
                    break
        for conn, n in obs.sends_after_closed():
            obs.violations.append(('no_send_after_closed', [kind_of(conn)], {'writes': n}))
        cause = '+'.join(self.fired) if self.fired else 'none'
        for label in CLAUSES:
            v = [x for x in obs.violations if x[0] == label]
            if v:
                c.check(False, label, sig=[sig[0]] + list(v[0][1]) + [cause], info=v[0][2])
            else:
                c.check(True, label, sig=[sig[0]])
        if not c.symbolic:
            for conn in obs.conns.values():
                c.note('reports', kind_of(conn), getattr(conn, 'hostname', None) if isinstance(getattr(conn, 'hostname', None), str) else '?',
                       [s.name for s in obs.states(conn)])


# ------------------------------------------------------------------------------------------------------------------
# reference: what the first frame of an accepted connection is (independent of aioslsk.protocol)
# ------------------------------------------------------------------------------------------------------------------

def decodable(ts):
    """text bytes the client accepts: UTF-8, else cp1252"""
    ts = list(ts)
    if not ts:
        return True
    return codec._or(codec.utf8_wellformed(ts), codec.cp1252_defined(ts))


def ref_first_frame(body, expected):
    """body: byte terms after the length prefix.  (valid_init, pierce_matches[j]) as python bool / z3 Bool.
    PeerPierceFirewall: code 0 + >= 4 bytes, valid iff its ticket is one of the expected tickets.
    PeerInit: code 1, string, string (each a 4-byte length that fits + decodable bytes), then exactly 4 or >= 8 bytes."""
    n = len(body)
    if n == 0:
        return False, [False] * len(expected)
    code = body[0]
    # pierce
    if n - 1 >= 4:
        t = le_value(body[1:5])
        matches = [codec._and(v_eq(code, 0), _teq32(t, e)) for e in expected]
    else:
        matches = [False] * len(expected)
    pierce_ok = codec._or(*matches) if matches else False
    # init
    alts = []
    rest = body[1:]
    for l1 in range(0, max(0, len(rest) - 4) + 1):
        if len(rest) < 4 + l1:
            break
        r2 = rest[4 + l1:]
        for l2 in range(0, max(0, len(r2) - 4) + 1):
            if len(r2) < 4 + l2:
                break
            left = len(r2) - 4 - l2
            if not (left == 4 or left >= 8):
                continue
            alts.append(codec._and(v_eq(le_value(rest[0:4]), l1), decodable(rest[4:4 + l1]),
                                   v_eq(le_value(r2[0:4]), l2), decodable(r2[4:4 + l2])))
    init_ok = codec._and(v_eq(code, 1), codec._or(*alts)) if alts else False
    return codec._or(pierce_ok, init_ok), matches


def _teq32(t, e):
    """wire value (python int / 32-bit z3 term) == expected ticket (python int / SWord)"""
    if isinstance(e, SWord):
        e = e.e
    return v_eq(t, e)


# ------------------------------------------------------------------------------------------------------------------
# building blocks of the scenarios
# ------------------------------------------------------------------------------------------------------------------

def key_source_for(g):
    n = [0]

    def key_source(k):
        n[0] += 1
        return g.raw(f'sendkey{n[0]}', k)
    return key_source


def wire_bytes(g, plain, obf, tag):
    return obfuscate(plain, terms(g.raw(f'key.{tag}', 4))) if obf else list(plain)


def payload_frames(g, typ, obf, tag, n=2):
    """n valid frames the peer sends after initialisation (symbolic leaves)"""
    out = []
    for i in range(1, n + 1):
        if typ == 'P':
            p = peer_place_in_queue_reply(g.text(f'{tag}{i}.filename', 2), g.word(f'{tag}{i}.place', 32))
        else:
            p = distributed_branch_level(g.word(f'{tag}{i}.level', 32))
        out.append(wire_bytes(g, p, obf, f'{tag}{i}'))
    return out


def out_message(g, typ, tag):
    if typ == 'P':
        return M.PeerPlaceInQueueReply.Request(filename=g.text(f'{tag}.filename', 2), place=g.word(f'{tag}.place', 32))
    return M.DistributedBranchLevel.Request(level=g.word(f'{tag}.level', 32))


def do_send(loop, conn, g, typ, tag):
    """a manager sends something on the connection (symbolic payload)"""
    if typ == 'F':
        return loop.spawn(conn.send_data(g.raw(f'{tag}.raw', 6)), name='user-send')
    msg = out_message(g, typ, tag)
    g.commit()
    return loop.spawn(conn.send_message(msg), name='user-send')


def add_tail(R, c, g, W, wire_of, typ, obf_after, tail):
    """scripted end of an established connection.  wire_of(): the Wire of the connection under test (or None)"""
    loop, obs = R.loop, W.obs

    def conn():
        w = wire_of()
        return w.owner if w is not None else None

    def ready():
        w = wire_of()
        return w is not None and w.owner is not None and w.owner.connection_state != PeerConnectionState.AWAITING_INIT

    def ev(fn):
        def run():
            w = wire_of()
            fn(w, w.owner)
        R.script.append((ready, run))

    if tail == 'none':
        return
    if tail in ('frames_eof', 'frames_batch', 'handler_disconnects'):
        if typ == 'F':
            raise symex.HarnessError('no message frames on file connections')
        if tail == 'frames_eof':
            f1, f2 = payload_frames(g, typ, obf_after, 'in')
            ev(lambda w, x: w.feed(f1))
            ev(lambda w, x: w.feed(f2))
        else:
            # eight frames in one segment: every one of them is handled by a listener that suspends once
            fs = payload_frames(g, typ, obf_after, 'in', 8)

            def batch(w, x):
                obs.slow_listener = True
                if tail == 'handler_disconnects':
                    def hook(e):
                        if e.connection is x and len(obs.messages(x)) == 1:
                            loop.create_task(x.disconnect(CloseReason.REQUESTED))
                    obs.on_message_hook = hook
                w.feed([t for f in fs for t in f])
            ev(batch)
        ev(lambda w, x: w.remote_eof())
    elif tail == 'eof':
        ev(lambda w, x: w.remote_eof())
    elif tail == 'eof_mid_frame':
        pre = terms(g.raw('cut.len', 4))
        k = c.choose(4, 'cut.sent')
        body = terms(g.raw('cut.body', k))
        if c.symbolic:
            c.assume(v_ugt(le_value(pre), k))
        elif not le_value(pre) > k:
            raise symex.PathAbort('assumption false in replay')
        data = wire_bytes(g, pre + body, obf_after, 'cut')
        ev(lambda w, x: w.feed(data))
        ev(lambda w, x: w.remote_eof())
    elif tail == 'reset':
        ev(lambda w, x: w.remote_reset())
    elif tail in ('send_reset', 'send_hang'):
        def snd(w, x):
            w.writer.drain_mode = 'reset' if tail == 'send_reset' else 'hang'
            do_send(loop, x, g, typ, 'out')
        ev(snd)
    elif tail in ('local', 'local_close_hang', 'local_close_error', 'local_twice'):
        def loc(w, x):
            if tail == 'local_close_hang':
                w.writer.close_mode = 'hang'
            if tail == 'local_close_error':
                w.writer.close_mode = 'error'
            loop.spawn(x.disconnect(CloseReason.REQUESTED), name='user-disconnect')
            if tail == 'local_twice':
                loop.spawn(x.disconnect(CloseReason.REQUESTED), name='user-disconnect-2')
        ev(loc)
    elif tail == 'send_after_closed':
        ev(lambda w, x: loop.spawn(x.disconnect(CloseReason.REQUESTED), name='user-disconnect'))

        def late(w, x):
            c.reach('send_after_closed_attempted')
            do_send(loop, x, g, typ, 'late1')
            loop.spawn(x.send_message(g.raw('late2.raw', 5)), name='user-send-raw')
            loop.call(x.queue_message, g.raw('late3.raw', 5))
        ev(late)
    elif tail == 'net_disconnect':
        ev(lambda w, x: loop.spawn(W.net.disconnect(), name='user-net-disconnect'))
    else:
        raise symex.HarnessError(tail)


QUEUED = ('stall1', 'stall2', 'slow2', 'fail1')


def add_queued(R, c, g, W, wire_of, typ, queued):
    """pre-condition of the end of an established connection: one or two messages were handed to queue_message() (what the
    transfer manager and the distributed network do) and their writes are still in flight: stalled (write time-out after 10 s),
    slow (done after 2 s) or failing (write error after 1 s).  Payloads symbolic."""
    if queued == 'none':
        return
    n, mode, delay = {'stall1': (1, 'hang', 0), 'stall2': (2, 'hang', 0), 'slow2': (2, 'slow', 2.0), 'fail1': (1, 'slow_reset', 1.0)}[queued]
    msgs = [g.raw(f'queued{i}.raw', 6) if typ == 'F' else out_message(g, typ, f'queued{i}') for i in range(n)]
    g.commit()

    def ready():
        w = wire_of()
        return w is not None and w.owner is not None and w.owner.connection_state != PeerConnectionState.AWAITING_INIT

    def run():
        w = wire_of()
        if not w.open or w.owner.state != ConnectionState.CONNECTED:
            return
        w.writer.drain_mode, w.writer.drain_delay = mode, delay
        for m in msgs:
            R.loop.call(w.owner.queue_message, m)
        c.reach('messages_queued')
    R.script.append((ready, run))


def add_injection(R, c, g, W, inject, target, typ):
    """target(): the PeerConnection under test or None (then the path is pruned: nothing to act on yet)"""
    loop = R.loop

    def need():
        x = target()
        if x is None:
            raise symex.PathAbort('injection before the connection exists (same as no injection)')
        return x
    if inject == 'none':
        return
    if inject == 'disconnect':
        R.inject('disconnect', lambda: loop.spawn(need().disconnect(CloseReason.REQUESTED), name='inj-disconnect'))
    elif inject == 'double':
        a = R.inject('disconnect', lambda: loop.spawn(need().disconnect(CloseReason.REQUESTED), name='inj-disconnect'))
        b = R.inject('disconnect2', lambda: loop.spawn(need().disconnect(CloseReason.READ_ERROR), name='inj-disconnect-2'))
        if c.symbolic:
            c.assume(a <= b)
        elif not a <= b:
            raise symex.PathAbort('assumption false in replay')
    elif inject == 'net_disconnect':
        R.inject('net_disconnect', lambda: loop.spawn(W.net.disconnect(), name='inj-net-disconnect'))
    elif inject == 'send':
        R.inject('send', lambda: do_send(loop, need(), g, typ if typ in ('P', 'D', 'F') else 'D', 'injsend'))
    elif inject in ('remote_eof', 'remote_reset'):
        def fire():
            x = need()
            ws = [w for w in R.st.wires if w.owner is x]
            if not ws or not ws[-1].open:
                raise symex.PathAbort('no open transport to break')
            (ws[-1].remote_eof if inject == 'remote_eof' else ws[-1].remote_reset)()
        R.inject(inject, fire)
    else:
        raise symex.HarnessError(inject)


# ------------------------------------------------------------------------------------------------------------------
# H1: accepted connections
# ------------------------------------------------------------------------------------------------------------------

FIRST_VALID = ('init_P', 'init_D', 'init_F', 'init_ticket8', 'pierce_match')
FIRST_ALL = FIRST_VALID + ('init_anytyp', 'pierce_0', 'pierce_1', 'pierce_2', 'unknown_code', 'bad_text', 'eof_at_0', 'eof_mid',
                           'silence', 'reset_before')
TAILS = ('none', 'frames_eof', 'frames_batch', 'handler_disconnects', 'eof', 'eof_mid_frame', 'reset', 'send_reset', 'send_hang',
         'local', 'local_close_hang', 'local_close_error', 'local_twice', 'send_after_closed', 'net_disconnect')
INJECTS = ('none', 'disconnect', 'double', 'net_disconnect', 'send', 'remote_eof', 'remote_reset')


def h_incoming(c, port, first, tail='none', inject='none', n_any=0, slow='none', pace='now', queued='none', initl='instant'):
    obf_port = port == 'obf'
    sig = ['incoming', port, first if not first.startswith('any') else 'any', tail]
    loop = VLoop()
    g = codec.Gen(c)
    try:
        with c10env.streams(c.symbolic) as st, codec.installed(c.symbolic, key_source=key_source_for(g)):
            W = World(c, loop, st, g)
            W.start()
            net, obs = W.net, W.obs
            obs.slow_states = slow == 'states'
            obs.init_mode = initl
            R = Run(c, loop, W, st)
            # ---- pending indirect attempts (their direct attempt is refused first) ---------------------------
            n_pending = {'pierce_0': 0, 'pierce_1': 1, 'pierce_2': 2, 'pierce_match': 1, 'any': 1}.get(first, 0)
            att = []
            for i in range(n_pending):
                st.script.append(('refused', 0))
                att.append(loop.spawn(net.create_peer_connection(f'user{i}', 'P', ip=f'7.7.7.{i}', port=700 + i), name=f'attempt{i}'))
            R.go(loop.time())
            if len(W.tickets) != n_pending or len(net._expected_connection_futures) != n_pending:
                raise symex.HarnessError('pending indirect attempts were not set up')
            # ---- the first frame ------------------------------------------------------------------------------
            typ, ref_valid, matches, plain = None, None, [], None
            if first.startswith('init_'):
                username = g.text('init.username', 2)
                if first == 'init_anytyp':
                    typ_v = g.text('init.typ', 1)
                    typ = None
                else:
                    typ = 'P' if first == 'init_ticket8' else first[-1]
                    typ_v = typ
                if first == 'init_ticket8':
                    plain = peer_init(username, typ_v, g.word('init.ticket', 64), 8)
                else:
                    plain = peer_init(username, typ_v, g.word('init.ticket', 32))
                ref_valid = True
            elif first.startswith('pierce'):
                t = g.word('pf.ticket', 32)
                if first == 'pierce_match':
                    if c.symbolic:
                        c.assume(t == W.tickets[0])
                    elif t != W.tickets[0]:
                        raise symex.PathAbort('assumption false in replay')
                    typ = 'P'
                plain = pierce_firewall(t)
                matches = [w_eq(t, e) for e in W.tickets]
                ref_valid = codec._or(*matches) if matches else False
            elif first == 'any':
                body = terms(g.raw('first.body', n_any))
                plain = le(n_any, 4) + body
                ref_valid, matches = ref_first_frame(body, W.tickets)
            elif first == 'unknown_code':
                code = terms(g.raw('first.code', 1))
                if c.symbolic:
                    c.assume(codec._and(codec._not(v_eq(code[0], 0)), codec._not(v_eq(code[0], 1))))
                elif code[0] in (0, 1):
                    raise symex.PathAbort('assumption false in replay')
                plain = frame(code, terms(g.raw('first.payload', 4)))
                ref_valid = False
            elif first == 'bad_text':
                txt = terms(g.raw('first.text', 2))
                bad = codec._and(codec._not(codec.utf8_wellformed(txt)), codec._not(codec.cp1252_defined(txt)))
                if c.symbolic:
                    c.assume(bad)
                elif bad is not True:
                    raise symex.PathAbort('assumption false in replay')
                plain = frame([1], le(2, 4) + txt + le(1, 4) + [ord('P')] + terms(g.raw('first.ticket', 4)))
                ref_valid = False
            elif first == 'eof_mid':
                pre = terms(g.raw('first.len', 4))
                k = c.choose(4, 'first.sent')
                if c.symbolic:
                    c.assume(v_ugt(le_value(pre), k))
                elif not le_value(pre) > k:
                    raise symex.PathAbort('assumption false in replay')
                plain = pre + terms(g.raw('first.body', k))
                ref_valid = False
            elif first in ('eof_at_0', 'silence', 'reset_before'):
                ref_valid = False
            else:
                raise symex.HarnessError(first)
            g.commit()
            wire, acc = W.incoming(obf_port)
            target = lambda: wire.owner
            add_injection(R, c, g, W, inject, target, typ or 'D')
            obf_after = obf_port and typ == 'P'
            # pace: 'now' = the frame is there at the first idle moment after accept; 'late' = the peer is silent for 20 s first;
            # 'slow' = silent for 5 s, then the frame dribbles in (3 pieces, 5 s apart).  In between the connection is an open,
            # accepted socket that has not identified itself yet.
            if pace not in ('now', 'late', 'slow'):
                raise symex.HarnessError(pace)
            if pace != 'now':
                R.wait(20 if pace == 'late' else 5)
            if plain is not None:
                data = wire_bytes(g, plain, obf_port, 'first')
                if pace == 'slow':
                    parts = cut(data, [3, 9])
                else:
                    seg = c.pick(['all', 'split'], 'segmentation') if len(data) > 5 else 'all'
                    parts = cut(data, [5]) if seg == 'split' else [data]
                for i, part in enumerate(parts):
                    if i and pace == 'slow':
                        R.wait(5)
                    R.script.append(lambda part=part: wire.feed(part))
            if first in ('eof_at_0', 'eof_mid'):
                R.script.append(wire.remote_eof)
            if first == 'reset_before':
                R.script.append(wire.remote_reset)

            # ---- the data-decided clause: judged at the first idle moment after the whole frame arrived -------
            def judge():
                if R.fired or first == 'silence' or initl != 'instant':
                    return
                x = wire.owner
                if x is None:
                    raise symex.HarnessError('the accept callback created no connection')
                registered = any(y is x for y in net.peer_connections)
                established = (registered and obs.last(x) == ConnectionState.CONNECTED and wire.open and acc.done()
                               and any(y is x for y in obs.inits))
                rejected = (not registered and obs.states(x)[-1:] == [ConnectionState.CLOSED] and obs.closed_count(x) == 1
                            and not wire.open and acc.done() and not any(y is x for y in obs.inits) and not obs.messages(x))
                info = {'registered': registered, 'reports': [s.name for s in obs.states(x)], 'transport_open': wire.open,
                        'accept_returned': acc.done(), 'initialised': any(y is x for y in obs.inits)}
                if established and not rejected:
                    cond = ref_valid
                    c.reach('first_frame_established')
                elif rejected and not established:
                    cond = codec._not(ref_valid)
                    c.reach('first_frame_rejected')
                else:
                    cond = False
                c.check(cond, 'accepted_registered_iff_valid_init', sig=sig[:3], info=info)
                for j, m in enumerate(matches):
                    done = att[j].done()
                    ok = done and not att[j].cancelled() and att[j].exception() is None and att[j].result() is x
                    c.check(m if ok else (codec._not(m) if not done else False), 'pierce_completes_matching_attempt_only',
                            sig=sig[:3] + [j], info={'attempt': j, 'done': done})
                    if ok:
                        c.reach('pierce_completed_attempt')
            R.script.append(judge)
            if typ is not None and first in FIRST_VALID:
                add_queued(R, c, g, W, lambda: wire, typ, queued)
                add_tail(R, c, g, W, lambda: wire, typ, obf_after, tail)
            elif tail != 'none' or queued != 'none':
                raise symex.HarnessError('tails / queued messages need a valid first frame')
            g.commit()
            R.go(loop.time() + HORIZON)
            if tail in ('frames_eof',) and inject == 'none':
                c.check(len(obs.messages(wire.owner)) == 2, 'scenario_delivers_messages', sig=sig)
            R.finish(sig)
    finally:
        loop.cleanup()


# ------------------------------------------------------------------------------------------------------------------
# H2: connections we open (direct, on the server's request, fallback / race with the indirect attempt)
# ------------------------------------------------------------------------------------------------------------------

VIAS = ('direct_plain', 'direct_obf', 'request', 'lookup')
WIRE_VIAS = ('request', 'lookup')       # address (ip, port, obfuscated port) comes from the wire: symbolic through the real codec
CONNECTS = ('ok', 'ok_slow', 'refused', 'refused_slow', 'hang')
OUT_INJECTS = INJECTS + ('cancel', 'pierce')


def h_outgoing(c, via, mode='fallback', typ='P', connect='ok', initsend='ok', tail='none', inject='none', slow='none', port='fixed',
               queued='none'):
    sig = ['outgoing', via, mode, connect, initsend, tail]
    loop = VLoop()
    g = codec.Gen(c)
    try:
        with c10env.streams(c.symbolic) as st, codec.installed(c.symbolic, key_source=key_source_for(g)):
            W = World(c, loop, st, g, mode=mode, prefer_obf=c.choose(2, 'prefer_obfuscated') == 1 if via in WIRE_VIAS else False)
            W.start()
            net, obs = W.net, W.obs
            obs.slow_states = slow == 'states'
            R = Run(c, loop, W, st)
            st.script.append({'ok': ('ok', 0), 'ok_slow': ('ok', 1.0), 'refused': ('refused', 0), 'refused_slow': ('refused', 1.0),
                              'hang': ('hang', 0)}[connect])

            def on_open(w):
                w.writer.drain_mode = {'ok': 'ok', 'reset': 'reset', 'hang': 'hang'}[initsend]
            st.on_open = on_open

            def target():
                xs = [x for x in obs.conns.values() if isinstance(x, PeerConnection) and not x.incoming]
                return xs[0] if xs else None

            def out_wire():
                x = target()
                ws = [w for w in st.wires if x is not None and w.owner is x]
                return ws[-1] if ws else None
            task = None
            if via in ('direct_plain', 'direct_obf'):
                # port='sym': the caller-supplied port is any 32-bit value (what a manager passes on from a peer message)
                port_v = g.word('direct.port', 32) if port == 'sym' else 1234
                task = loop.spawn(net.create_peer_connection('bob', typ, ip='1.2.3.4', port=port_v, obfuscate=via == 'direct_obf'),
                                  name='create-peer-connection')
                obf_after = via == 'direct_obf' and typ == 'P'
            elif via == 'lookup':
                # no address given: GetPeerAddress round trip; ip / port (uint32) / obfuscated port (uint16) of the answer are symbolic
                task = loop.spawn(net.create_peer_connection('bob', typ), name='create-peer-connection')
                data = server_get_peer_address('bob', terms(g.raw('gpa.ip', 4)), g.word('gpa.port', 32), g.word('gpa.obf_amount', 32),
                                               g.word('gpa.obf_port', 16))
                R.script.append(lambda: W.server_wire.feed(data))
                obf_after = None
            else:
                data = server_connect_to_peer(g.text('ctp.username', 2), typ, terms(g.raw('ctp.ip', 4)), g.word('ctp.port', 32),
                                              g.word('ctp.ticket', 32), terms(g.raw('ctp.privileged', 1))[0], g.word('ctp.obf_amount', 32),
                                              g.word('ctp.obf_port', 32))
                g.commit()
                W.server_wire.feed(data)
                obf_after = None       # decided by select_port on the symbolic ports
            # ---- injected actions ---------------------------------------------------------------------------------
            if inject == 'cancel':
                if task is None:
                    raise symex.HarnessError('cancel needs a task of ours')
                R.inject('cancel', lambda: loop.call(task.cancel))
            elif inject == 'pierce':
                def fire():
                    if not W.tickets or len(net._expected_connection_futures) == 0:
                        raise symex.PathAbort('no indirect attempt is waiting')
                    w, _ = W.incoming(False, peer=('8.8.8.8', 888))
                    w.feed(pierce_firewall(W.tickets[0]))
                R.inject('pierce', fire)
            else:
                add_injection(R, c, g, W, inject, target, typ)
            # ---- after the init message was sent: the established connection ends -----------------------------------
            if queued != 'none':
                if initsend != 'ok':
                    raise symex.HarnessError('queued messages need an established connection')
                add_queued(R, c, g, W, out_wire, typ, queued)
            if tail != 'none':
                if initsend != 'ok':
                    raise symex.HarnessError('tails need an established connection')
                if via in WIRE_VIAS and tail in ('frames_eof', 'frames_batch', 'handler_disconnects', 'eof_mid_frame'):
                    # whether the peer has to obfuscate its frames is decided by select_port on symbolic ports
                    raise symex.HarnessError('frame tails are driven through direct connections')
                add_tail(R, c, g, W, out_wire, typ, obf_after, tail)
            g.commit()
            R.go(loop.time() + HORIZON)
            x = target()
            if x is not None:
                c.reach('outgoing_connection_created')
                if any(s == ConnectionState.CONNECTED for s in obs.states(x)):
                    c.reach('outgoing_connected')
            R.finish(sig)
    finally:
        loop.cleanup()


# ------------------------------------------------------------------------------------------------------------------
# H3: the server connection (the only one that may go CLOSED -> CONNECTING), with the real watchdog
# ------------------------------------------------------------------------------------------------------------------

SERVER_ENDS = ('eof', 'reset', 'local', 'read_timeout', 'send_reset', 'eof_mid_frame', 'frames_then_eof')


def h_server(c, connect='ok', end='eof', second='ok', inject='none', slow='none'):
    sig = ['server', connect, end, second]
    loop = VLoop()
    g = codec.Gen(c)
    try:
        with c10env.streams(c.symbolic) as st, codec.installed(c.symbolic, key_source=key_source_for(g)):
            W = World(c, loop, st, g, reconnect=True)
            net, obs = W.net, W.obs
            S = net.server_connection
            S.read_timeout = 3
            obs.slow_states = slow == 'states'
            R = Run(c, loop, W, st)
            st.script.append({'ok': ('ok', 0), 'ok_slow': ('ok', 1.0), 'refused': ('refused', 0), 'hang': ('hang', 0)}[connect])
            st.script.append({'ok': ('ok', 0), 'refused': ('refused', 0)}[second])

            def swire():
                ws = [w for w in st.wires if w.owner is S]
                return ws[-1] if ws else None
            def begun():
                # calling disconnect() before / while nobody has called connect() yet is not a way a connection ends
                if not obs.states(S):
                    raise symex.PathAbort('injection before the first connect() (same as no injection)')
            if inject == 'disconnect':
                R.inject('disconnect', lambda: (begun(), loop.spawn(net.disconnect_server(), name='inj-disconnect-server')))
            elif inject == 'send':
                injmsg = M.GetUserStatus.Request(g.text('injsend.username', 2))
                R.inject('send', lambda: (begun(), loop.spawn(S.send_message(injmsg), name='inj-send')))
            elif inject != 'none':
                raise symex.HarnessError(inject)
            loop.spawn(net.initialize(), name='initialize')
            frames = [server_get_user_status(g.text(f's{i}.username', 2), g.word(f's{i}.status', 32), terms(g.raw(f's{i}.priv', 1))[0])
                      for i in (1, 2)]
            pre = terms(g.raw('cut.len', 4))
            if c.symbolic:
                c.assume(v_ugt(le_value(pre), 2))
            elif not le_value(pre) > 2:
                raise symex.PathAbort('assumption false in replay')
            cutf = pre + terms(g.raw('cut.body', 2))
            outmsg = M.GetUserStatus.Request(g.text('out.username', 2))
            g.commit()

            def started():
                # like SoulSeekClient.login: the reader loop of the server connection
                if S.state == ConnectionState.CONNECTED and S._reader_task is None:
                    loop.call(S.start_reader_task)

            def ev(fn):
                def run():
                    w = swire()
                    if w is None or not w.open:
                        return
                    fn(w)
                R.script.append(run)
            R.script.append(started)
            ev(lambda w: w.feed(frames[0]))
            if end == 'eof':
                ev(lambda w: w.remote_eof())
            elif end == 'frames_then_eof':
                def batch(w):
                    obs.slow_listener = True
                    w.feed(frames[1] + frames[0])
                    w.remote_eof()
                ev(batch)
            elif end == 'eof_mid_frame':
                ev(lambda w: w.feed(cutf))
                ev(lambda w: w.remote_eof())
            elif end == 'reset':
                ev(lambda w: w.remote_reset())
            elif end == 'local':
                ev(lambda w: loop.spawn(net.disconnect_server(), name='user-disconnect-server'))
            elif end == 'send_reset':
                def snd(w):
                    w.writer.drain_mode = 'reset'
                    loop.spawn(S.send_message(outmsg), name='user-send')
                ev(snd)
            elif end == 'read_timeout':
                pass
            else:
                raise symex.HarnessError(end)
            # second life (the watchdog reconnects unless the close was requested / EOF): reader again, a frame, then shutdown
            R.go(loop.time() + 12)
            if sum(1 for s in obs.states(S) if s == ConnectionState.CONNECTING) >= 2:
                c.reach('server_reconnected')
            R.script.append(started)
            ev(lambda w: w.feed(frames[1]))
            R.go(loop.time() + 2)
            R.finish(sig)
    finally:
        loop.cleanup()


# ------------------------------------------------------------------------------------------------------------------
# META / jobs / prelude
# ------------------------------------------------------------------------------------------------------------------

BOUNDS = {
    'quick': {'any': 16, 'any_obf': 14},
    'thorough': {'any': 22, 'any_obf': 18},
}

META = {
    'level': 'other',
    'technique': 'mixed, stated per clause: (1) symbolic execution of the real accept / on_peer_accepted / parser path on first frames whose '
                 'bytes, obfuscation key, PeerInit fields and PeerPierceFirewall ticket are z3 terms, against an independent reference '
                 'decoder and symbolic expected tickets (z3 decides registered-vs-closed and which attempt completes, for all values); '
                 '(2) bounded exhaustive enumeration of end kinds, fault positions and injection steps (finite discriminants, c.choose / '
                 'symbolic step index forked per loop step) on the real Network/Connection code over transport fakes on a virtual loop, '
                 'with every byte / ticket / name / port flowing through symbolic; the life-cycle clauses are evaluated on each such path '
                 'by an observer on the real event bus - their verdict does not depend on the data',
    'explanation': 'incoming: real ListeningConnection.accept -> Network.on_peer_accepted on a first frame that is (a) a fully symbolic body '
                   'of every length 0..N on the plain and (shorter) on the obfuscated port with a pending indirect attempt whose ticket is '
                   'symbolic, (b) PeerInit with symbolic user name / typ / 4- or 8-byte ticket, (c) PeerPierceFirewall with a symbolic ticket '
                   'against 0..2 pending attempts with symbolic pairwise distinct tickets, (d) unknown code, undecodable text, EOF before / '
                   'inside the frame (symbolic prefix), reset, silence: accepted_registered_iff_valid_init and '
                   'pierce_completes_matching_attempt_only are z3 queries against the reference.  Then 15 ways the established connection '
                   'ends (EOF, EOF inside a frame with symbolic prefix, reset, read time-out, failed / stalled write, local disconnect incl. '
                   'twice / stalled / failing transport close, handler that disconnects between two buffered frames, Network.disconnect, '
                   'sends after CLOSED) x one injected concurrent action at every loop step (disconnect, two disconnects, Network.disconnect, '
                   'send, remote EOF, reset).  outgoing: create_peer_connection (direct plain / obfuscated, typ P/D/F, fallback and race '
                   'mode; with the address given - optionally a symbolic 32-bit port - or looked up: GetPeerAddress.Response with symbolic ip, '
                   'uint32 port, uint16 obfuscated port) and the server-requested _handle_connect_to_peer (ConnectToPeer.Response with symbolic '
                   'user, ip, ports, ticket; select_port decided by z3).  The port that reaches open_connection is the value that flowed '
                   'from the wire through the real codec; the fake treats it like the real call (port > 65535 -> OverflowError, not an '
                   'OSError, no I/O) - z3 finds such a port and the path "attempt ends with a non-OSError" runs through every clause - '
                   'x connect ok / slow / refused / never answers x init-message write ok / fails / stalls x tail '
                   'x injection (additionally: cancellation of the connecting task at every loop step, a PeerPierceFirewall for the racing '
                   'indirect attempt at every loop step).  server: connect, end, reconnect by the REAL watchdog job, second life, shutdown.  '
                   'At every loop callback the observer checks: reports strictly forward, nothing after CLOSED except server '
                   'CLOSED->CONNECTING, no delivery while CLOSED, no transport write accepted after CLOSED; at every idle moment: registry == '
                   '{transport open or attempt pending} per the fakes (not per Connection.state); after a final Network.disconnect(): CLOSED '
                   'exactly once per reported connection (server: per life); then one more disconnect() on every Data connection that was reported CLOSED '
                   'must report nothing.  The PeerInitializedEvent listener that on_peer_accepted awaits before accept() reports CONNECTED is a '
                   'discriminant (instant / suspends / disconnects / reads the transfer ticket) with all environment events offered meanwhile.',
    'functions': [ListeningConnection.accept, ListeningConnection.connect, ListeningConnection.disconnect, Connection.set_state,
                  DataConnection.connect, DataConnection.disconnect, DataConnection._message_reader_loop, DataConnection._read,
                  DataConnection._read_message, DataConnection.receive_message, DataConnection.receive_message_object,
                  DataConnection.send_message, DataConnection._send, DataConnection.queue_message, DataConnection._cancel_queued_messages,
                  DataConnection.encode_message_data, DataConnection.decode_message_data, DataConnection._perform_message_callback,
                  DataConnection.start_reader_task, DataConnection.stop_reader_task, PeerConnection.set_connection_state,
                  PeerConnection.send_data, PeerConnection.deserialize_message, ServerConnection.deserialize_message,
                  Network.initialize, Network.connect_listening_ports, Network.connect_server, Network.disconnect_server, Network.disconnect,
                  Network.create_peer_connection, Network._create_peer_connection_fallback, Network._create_peer_connection_race,
                  Network._make_direct_connection, Network._make_indirect_connection, Network._handle_connect_to_peer,
                  Network._handle_connect_to_peer_callback, Network._on_connect_to_peer, Network.select_port,
                  Network._finalize_peer_connection, Network.on_peer_accepted, Network.on_state_changed,
                  Network._on_peer_connection_state_changed, Network._on_server_connection_state_changed,
                  Network.remove_peer_connection, Network._remove_connection_future, Network.on_message_received,
                  Network._server_connection_watchdog_job, Network._cancel_all_tasks, EventBus.emit,
                  M.PeerInit.Request, M.PeerPierceFirewall.Request, M.ConnectToPeer.Response, M.ConnectToPeer.Request,
                  M.CannotConnect.Request, M.GetPeerAddress.Response, Network._get_peer_address, O.encode, O.decode],
    'stubs': codec.STUBS + c10env.STUBS + [
        'Network built with its real constructor, real Settings (upnp off; reconnect on with 2 s delay in the server harness), real EventBus',
        'settings.debug.ip_overrides (empty dict) -> object whose get() returns the default without hashing (exploration only)',
        'ServerConnection.read_timeout = 3 s in the server harness (public attribute; keeps the number of watchdog ticks small)',
        'SoulSeekClient.login is not run: the harness starts the server reader task the way login() does',
        'the connection object of an accepted transport is read from the frame of the running ListeningConnection.accept callback (local '
        '`connection`) or, once it returned, from the reports on the event bus - never from Network.peer_connections'],
    'data_variables': ['every byte of the first frame of an accepted connection (length-N body, N = 0..bound) and the 4 key bytes on the '
                       'obfuscated port', 'PeerInit user name bytes, typ byte, 32/64-bit ticket', 'PeerPierceFirewall ticket (32 bit) and the '
                       'tickets handed out by the ticket generator (32 bit, pairwise distinct)', 'length prefix of a frame cut by EOF (32 bit)',
                       'leaves of every frame received / message sent in the scenarios (user names, file names, uint32), obfuscation keys',
                       'ConnectToPeer.Response: user name, ip octets, port, obfuscated port, ticket, privileged byte',
                       'GetPeerAddress.Response: ip octets, port (uint32), obfuscated port amount, obfuscated port (uint16)',
                       'the port handed to open_connection (32-bit word from the wire or from the caller): decides between "attempt is '
                       'made" and "OverflowError before any I/O" (port > 65535)'],
    'discriminants': ['listening port (plain / obfuscated)', 'first-frame kind (15) and body length', 'TCP segmentation of the first frame (2)',
                      'pace of the first frame: at once / after 20 s of silence / 5 s of silence then 3 pieces 5 s apart (the accepted, not yet '
                      'initialised socket is observed at every idle moment and hit by every injected action in between)',
                      'what the PeerInitializedEvent listener awaited by on_peer_accepted does for an accepted connection: instant / suspends 1 or 3 '
                      'loop turns / suspends 2 s / disconnects the connection / reads the transfer ticket (F) - with every injected action and '
                      'scripted remote event offered while it is pending',
                      'end kind of an established connection (15)', 'messages pending in queue_message() tasks when it ends: none / 1 or 2 with '
                      'stalled writes / 2 with slow writes / 1 whose write fails (payload symbolic)', 'kind of the injected concurrent action (7 + cancel + pierce) and the loop step '
                      'at which it happens (every step of the scenario)', 'way of opening (direct plain / obfuscated with fixed or symbolic port / address lookup / server request), '
                      'connect mode (fallback / race), typ (P/D/F)', 'outcome of open_connection (ok, ok after 1 s, refused, refused after 1 s, never)',
                      'outcome of the init-message write (ok, fails, stalls)', 'server: connect outcome, end kind (7), outcome of the reconnect'],
    'bounds': {t: {'fully symbolic first frame body': f"0..{b['any']} bytes (plain port), 0..{b['any_obf']} (obfuscated port)",
                   'pending indirect attempts': '0..2', 'frames after initialisation': '2 (one per segment) or 8 (one segment)', 'injected actions per scenario': '1 (2 for `double`)',
                   'virtual time': f'{HORIZON:.0f} s after the last scripted event + shutdown', 'loop steps per scenario': MAX_STEPS}
               for t, b in BOUNDS.items()},
    'outside': ['orderings that need two or more independent injected actions besides the scripted end (only `double` has two)',
                'more than one connection under test at a time (other connections exist: server, listening, attempts)',
                'cancellation of tasks the library does not hand out (accept callback, reader task) ',
                'file transfer phase of F connections (C04), message semantics (C01/C02), which of direct / indirect wins beyond what the '
                'registry and life-cycle clauses see (C11)',
                '"no send succeeds" is read at the transport: no byte is accepted by the transport after the CLOSED report; that '
                'send_message() returns silently on a closed connection instead of raising is the documented behaviour',
                'real sockets and the real selector: transports are fakes with asyncio semantics (validated against asyncio streams over a '
                'socketpair in the prelude)'],
    'assumptions': ['asyncio stream semantics as implemented by engine.c10env.Wire (close -> connection_lost next iteration -> EOF / '
                    'wait_closed; write after close dropped; drain after loss raises ConnectionResetError)',
                    'async_timeout == asyncio.timeout semantics; asyncio Task/Future semantics of CPython 3.12',
                    'FIFO scheduling of ready callbacks (like asyncio); the injected action is the only source of schedule variation'],
}


def _frame_tail(t):
    return t in ('frames_eof', 'frames_batch', 'handler_disconnects')


def jobs(tier):
    b = BOUNDS[tier]
    quick = tier == 'quick'
    lim = {'timeout_s': 600 if quick else 2400, 'solver_timeout_ms': 60000}
    core = ['scenario_ran'] + CLAUSES
    out, seen = [], set()

    def add(h, fn, params, req, w):
        key = h + repr(sorted(params.items()))
        if key in seen:
            return
        seen.add(key)
        out.append({'harness': h, 'fn': fn, 'params': params, 'requires': req, 'weight': w, **lim})

    # ---- H1a: data-decided fate of the first frame -----------------------------------------------------------------
    for port in ('plain', 'obf'):
        for n in range(b['any_obf' if port == 'obf' else 'any'] + 1):
            add('incoming', h_incoming, {'port': port, 'first': 'any', 'n_any': n}, core + ['accepted_registered_iff_valid_init'],
                1.4 ** n * (2 if port == 'obf' else 1))
        for first in FIRST_ALL:
            req = core + ([] if first == 'silence' else ['accepted_registered_iff_valid_init'])
            if first.startswith('pierce') and first != 'pierce_0':
                req = req + ['pierce_completes_matching_attempt_only', 'pierce_completed_attempt']
            add('incoming', h_incoming, {'port': port, 'first': first}, req, 10)

    # ---- H1b: ways an accepted connection ends x injected concurrent action --------------------------------------------
    def inc(port, first, t, i, slow='none', queued='none', initl='instant'):
        typ = 'P' if first in ('init_ticket8', 'pierce_match') else first[-1] if first in FIRST_VALID else None
        if t != 'none' and first not in FIRST_VALID:
            return
        if typ == 'F' and _frame_tail(t):
            return
        req = core + (['send_after_closed_attempted'] if t == 'send_after_closed' and i == 'none' else [])
        req = req + (['scenario_delivers_messages'] if t == 'frames_eof' and i == 'none' else [])
        params = {'port': port, 'first': first, 'tail': t, 'inject': i}
        if slow != 'none':
            params['slow'] = slow
        if queued != 'none':
            params['queued'] = queued
            req = req + ['messages_queued']
        if initl != 'instant':
            if typ is None or (initl == 'reads' and typ != 'F'):
                return
            params['initl'] = initl
            req = [r for r in req if r not in ('scenario_delivers_messages',)]
            closes = (initl == 'disconnects' or (initl == 'reads' and t in ('eof', 'reset', 'local', 'net_disconnect'))
                      or (initl == 'suspend_long' and (t in ('local', 'net_disconnect') or (t in ('eof', 'reset') and typ != 'F'))))
            if closes and i == 'none' and slow == 'none':
                req = req + ['closed_while_init_listener_pending']
        add('incoming', h_incoming, params, req, 300 if i == 'double' else 60 if i != 'none' else 2)

    # ---- H1c: what the PeerInitializedEvent listener does while on_peer_accepted awaits it x environment events -------------
    SUSP = ('suspend1', 'suspend3', 'suspend_long')
    ENV = ('none', 'remote_eof', 'remote_reset', 'net_disconnect', 'disconnect')
    if quick:
        for first in ('init_P', 'init_D', 'init_F'):
            for il in SUSP:
                for i in ENV[1:]:
                    inc('plain', first, 'none', i, initl=il)
            for t in ('eof', 'reset', 'local', 'net_disconnect'):
                inc('plain', first, t, 'none', initl='suspend_long')
            for i in ('none', 'net_disconnect', 'remote_eof'):
                inc('plain', first, 'none', i, initl='disconnects')
        for t in ('eof', 'reset', 'none', 'net_disconnect', 'local'):
            inc('plain', 'init_F', t, 'none', initl='reads')
        for i in ENV[1:]:
            inc('plain', 'init_F', 'none', i, initl='reads')
        inc('obf', 'init_P', 'eof', 'none', initl='suspend_long')
        inc('obf', 'init_F', 'eof', 'none', initl='reads')
        inc('obf', 'init_D', 'none', 'remote_eof', initl='disconnects')
        inc('obf', 'init_D', 'none', 'remote_reset', initl='suspend3')
        inc('plain', 'pierce_match', 'eof', 'none', initl='suspend_long')
        inc('plain', 'pierce_match', 'none', 'net_disconnect', initl='suspend1')
        inc('plain', 'init_P', 'eof', 'none', 'states', initl='suspend_long')
    else:
        for port in ('plain', 'obf'):
            for first in ('init_P', 'init_D', 'init_F', 'pierce_match', 'init_ticket8'):
                for il in SUSP + ('disconnects', 'reads'):
                    for i in ENV + ('double', 'send'):
                        inc(port, first, 'none', i, initl=il)
                    for t in ('eof', 'reset', 'local', 'net_disconnect', 'eof_mid_frame', 'send_reset', 'frames_batch', 'local_twice'):
                        for i in ('none', 'disconnect', 'remote_reset'):
                            inc(port, first, t, i, initl=il)
                    if port == 'plain':
                        for t in ('none', 'eof', 'reset'):
                            inc(port, first, t, 'remote_eof', 'states', initl=il)

    def paced(port, first, pace, i, n_any=None):
        params = {'port': port, 'first': first, 'inject': i, 'pace': pace}
        if n_any is not None:
            params['n_any'] = n_any
        req = core + ([] if first == 'silence' else ['accepted_registered_iff_valid_init'])
        add('incoming', h_incoming, params, req, (400 if first == 'any' else 80) if i != 'none' else 4)
    if quick:
        for pace in ('late', 'slow'):
            for i in ('none', 'net_disconnect', 'disconnect', 'remote_eof'):
                for first in ('init_P', 'pierce_1', 'unknown_code'):
                    paced('plain', first, pace, i)
                paced('obf', 'init_D', pace, i)
            paced('plain', 'any', pace, 'net_disconnect', 13)
        for i in ('net_disconnect', 'remote_reset'):
            paced('plain', 'eof_at_0', 'late', i)
            inc('plain', 'silence', 'none', i)
    else:
        for port in ('plain', 'obf'):
            for pace in ('late', 'slow'):
                for first in FIRST_ALL:
                    if first == 'silence' or (pace == 'slow' and first in ('eof_at_0', 'reset_before')):
                        continue
                    for i in INJECTS:
                        if i in ('double', 'send') and first not in ('init_P', 'pierce_1'):
                            continue
                        paced(port, first, pace, i)
                for n in (5, 13):
                    for i in ('none', 'net_disconnect', 'remote_eof'):
                        paced(port, 'any', pace, i, n)
    QT = ('local', 'local_twice', 'net_disconnect', 'eof', 'reset', 'send_reset', 'local_close_hang', 'none')
    QI = ('none', 'disconnect', 'double', 'net_disconnect', 'remote_eof', 'remote_reset', 'send')
    if quick:
        for q in QUEUED:
            for i in ('none', 'disconnect', 'remote_eof', 'remote_reset', 'net_disconnect'):
                inc('plain', 'init_P', 'local', i, queued=q)
        for q in ('stall2', 'fail1'):
            for t in ('net_disconnect', 'eof', 'local_twice'):
                inc('plain', 'init_P', t, 'disconnect', queued=q)
            inc('plain', 'init_D', 'local', 'remote_eof', queued=q)
            inc('obf', 'init_P', 'local', 'disconnect', queued=q)
            inc('plain', 'init_F', 'local', 'remote_reset', queued=q)
        inc('plain', 'init_P', 'local', 'disconnect', 'states', queued='stall1')
    else:
        for q in QUEUED:
            for first in ('init_P', 'init_D', 'init_F'):
                for t in QT:
                    for i in QI:
                        inc('plain', first, t, i, queued=q)
                    inc('plain', first, t, 'disconnect', 'states', queued=q)
            for t in ('local', 'net_disconnect', 'eof'):
                for i in ('none', 'disconnect', 'remote_reset'):
                    inc('obf', 'init_P', t, i, queued=q)
    if quick:
        for t in TAILS:
            for i in ('none', 'disconnect', 'send'):
                inc('plain', 'init_P', t, i)
            inc('plain', 'init_P', t, 'disconnect', 'states')
            inc('plain', 'init_D', t, 'net_disconnect')
            inc('plain', 'init_F', t, 'remote_reset')
        for t in ('frames_batch', 'local', 'eof', 'send_after_closed', 'eof_mid_frame', 'send_hang'):
            inc('obf', 'init_P', t, 'disconnect')
            inc('obf', 'init_D', t, 'send')
        for t in ('none', 'eof', 'local'):
            inc('plain', 'pierce_match', t, 'remote_eof')
            inc('plain', 'init_ticket8', t, 'disconnect')
        for t in ('local', 'handler_disconnects', 'send_reset'):
            inc('plain', 'init_P', t, 'double')
        for first in FIRST_ALL:
            if first not in FIRST_VALID:
                inc('plain', first, 'none', 'disconnect')
                inc('obf', first, 'none', 'net_disconnect')
    else:
        for port in ('plain', 'obf'):
            for first in FIRST_VALID:
                for t in TAILS:
                    if first == 'init_ticket8' and t not in ('none', 'eof', 'local'):
                        continue
                    for i in INJECTS:
                        if port == 'obf' and (i in ('double', 'remote_eof') or first not in ('init_P', 'init_D')):
                            continue
                        inc(port, first, t, i)
                    if first in ('init_P', 'init_F') and port == 'plain':
                        for i in ('disconnect', 'net_disconnect', 'send', 'remote_reset'):
                            inc(port, first, t, i, 'states')
            for first in FIRST_ALL:
                if first not in FIRST_VALID:
                    for i in INJECTS[1:]:
                        inc(port, first, 'none', i)
                    inc(port, first, 'none', 'disconnect', 'states')

    # ---- H2: outgoing --------------------------------------------------------------------------------------------------
    def outg(via, mode, typ, connect, initsend, t, inj, slow='none', port='fixed', queued='none'):
        if via == 'request' and (mode == 'race' or inj in ('cancel', 'pierce')):
            return
        if via in WIRE_VIAS and (_frame_tail(t) or t == 'eof_mid_frame'):
            return
        if typ == 'F' and _frame_tail(t):
            return
        if t != 'none' and (connect != 'ok' or initsend != 'ok'):
            return
        params = {'via': via, 'mode': mode, 'typ': typ, 'connect': connect, 'initsend': initsend, 'tail': t, 'inject': inj}
        if slow != 'none':
            params['slow'] = slow
        if port != 'fixed':
            params['port'] = port
        req = core + ['outgoing_connection_created']
        if queued != 'none':
            if connect != 'ok' or initsend != 'ok':
                return
            params['queued'] = queued
            req = req + ['messages_queued']
        if via in WIRE_VIAS or port == 'sym':
            req = req + ['connect_argument_rejected']      # the solver found an address the real open_connection refuses to take
        add('outgoing', h_outgoing, params, req, 300 if inj == 'double' else 60 if inj != 'none' else 2)
    if quick:
        for q in QUEUED:
            for inj in ('none', 'disconnect', 'remote_reset'):
                outg('direct_plain', 'fallback', 'P', 'ok', 'ok', 'local', inj, queued=q)
        outg('direct_obf', 'fallback', 'D', 'ok', 'ok', 'net_disconnect', 'remote_eof', queued='stall2')
        outg('request', 'fallback', 'P', 'ok', 'ok', 'local', 'disconnect', queued='fail1')
    else:
        for q in QUEUED:
            for via in VIAS:
                for typ in ('P', 'D', 'F'):
                    for t in QT:
                        for inj in QI:
                            if via != 'direct_plain' and (typ != 'P' or t not in ('local', 'net_disconnect', 'eof')
                                                          or inj not in ('none', 'disconnect', 'remote_reset')):
                                continue
                            outg(via, 'fallback', typ, 'ok', 'ok', t, inj, queued=q)
    if quick:
        for connect in CONNECTS:
            for inj in ('none', 'cancel', 'disconnect', 'net_disconnect'):
                outg('direct_plain', 'fallback', 'P', connect, 'ok', 'none', inj)
            outg('direct_plain', 'race', 'P', connect, 'ok', 'none', 'pierce')
            outg('direct_obf', 'race', 'D', connect, 'ok', 'none', 'cancel')
            outg('request', 'fallback', 'P', connect, 'ok', 'none', 'net_disconnect')
            outg('request', 'fallback', 'F', connect, 'ok', 'none', 'disconnect')
            outg('direct_plain', 'fallback', 'P', connect, 'ok', 'none', 'disconnect', 'states')
            outg('direct_plain', 'fallback', 'F', connect, 'ok', 'none', 'cancel', 'states')
        for connect in ('ok', 'refused', 'hang'):
            outg('lookup', 'fallback', 'P', connect, 'ok', 'none', 'none')
            outg('lookup', 'race', 'D', connect, 'ok', 'none', 'pierce')
            outg('lookup', 'fallback', 'F', connect, 'ok', 'none', 'cancel')
            outg('direct_plain', 'fallback', 'P', connect, 'ok', 'none', 'none', port='sym')
            outg('direct_obf', 'race', 'D', connect, 'ok', 'none', 'disconnect', port='sym')
        outg('request', 'fallback', 'P', 'ok', 'ok', 'none', 'none')
        outg('request', 'fallback', 'P', 'ok', 'ok', 'none', 'disconnect', 'states')
        outg('lookup', 'fallback', 'P', 'ok', 'ok', 'none', 'net_disconnect', 'states')
        for initsend in ('reset', 'hang'):
            for inj in ('none', 'disconnect', 'cancel'):
                outg('direct_obf', 'fallback', 'P', 'ok', initsend, 'none', inj)
            outg('request', 'fallback', 'D', 'ok', initsend, 'none', 'net_disconnect')
            outg('direct_plain', 'race', 'D', 'ok', initsend, 'none', 'pierce')
        for t in TAILS[1:]:
            outg('direct_plain', 'fallback', 'P', 'ok', 'ok', t, 'disconnect')
            outg('direct_obf', 'fallback', 'P', 'ok', 'ok', t, 'none')
            outg('direct_plain', 'fallback', 'D', 'ok', 'ok', t, 'send')
            outg('request', 'fallback', 'P', 'ok', 'ok', t, 'remote_reset')
            outg('direct_plain', 'fallback', 'F', 'ok', 'ok', t, 'cancel')
    else:
        for via in VIAS:
            for mode in ('fallback', 'race'):
                for typ in ('P', 'D', 'F'):
                    for connect in CONNECTS:
                        for initsend in ('ok', 'reset', 'hang'):
                            if initsend != 'ok' and connect != 'ok':
                                continue
                            for inj in OUT_INJECTS:
                                if typ != 'P' and inj in ('double', 'remote_eof', 'send'):
                                    continue
                                outg(via, mode, typ, connect, initsend, 'none', inj)
                            for inj in ('disconnect', 'cancel', 'net_disconnect', 'pierce'):
                                if typ == 'P':
                                    outg(via, mode, typ, connect, initsend, 'none', inj, 'states')
                            if via.startswith('direct') and initsend == 'ok':
                                for inj in ('none', 'disconnect', 'cancel', 'pierce'):
                                    outg(via, mode, typ, connect, initsend, 'none', inj, port='sym')
            for typ in ('P', 'D', 'F'):
                for t in TAILS[1:]:
                    for inj in ('none', 'disconnect', 'net_disconnect', 'send', 'cancel', 'remote_reset'):
                        if typ != 'P' and inj in ('send', 'remote_reset'):
                            continue
                        outg(via, 'fallback', typ, 'ok', 'ok', t, inj)
                    if typ == 'P':
                        outg(via, 'fallback', typ, 'ok', 'ok', t, 'disconnect', 'states')

    # ---- H3: server ------------------------------------------------------------------------------------------------------
    def srv(connect, end, second, inj, slow='none'):
        params = {'connect': connect, 'end': end, 'second': second, 'inject': inj}
        if slow != 'none':
            params['slow'] = slow
        add('server', h_server, params, core, 80 if inj != 'none' else 3)
    if quick:
        for end in SERVER_ENDS:
            for inj in ('none', 'disconnect', 'send'):
                srv('ok', end, 'ok', inj)
            srv('ok', end, 'refused', 'disconnect', 'states')
        for connect in ('ok_slow', 'refused', 'hang'):
            srv(connect, 'eof', 'ok', 'disconnect')
            srv(connect, 'reset', 'ok', 'none')
    else:
        for connect in ('ok', 'ok_slow', 'refused', 'hang'):
            for end in SERVER_ENDS:
                if connect in ('refused', 'hang') and end not in ('eof', 'reset'):
                    continue
                for second in ('ok', 'refused'):
                    for inj in ('none', 'disconnect', 'send'):
                        srv(connect, end, second, inj)
                        if inj != 'none':
                            srv(connect, end, second, inj, 'states')
    out.sort(key=lambda j: -j.get('weight', 1))
    for j in out:
        j.pop('weight', None)
    return out


def prelude(tier):
    notes = codec.validate(deep=False)
    notes.append(_validate_wire())
    notes.append(_validate_arguments())
    notes.append(_validate_reference())
    return notes


def _validate_reference():
    """the hand-written reference frames against the real classes on concrete values (both directions)"""
    checks = [
        (bytes(peer_init('ab', 'P', 7)), M.PeerInit.Request('ab', 'P', 7).serialize()),
        (bytes(pierce_firewall(0xDEADBEEF)), M.PeerPierceFirewall.Request(0xDEADBEEF).serialize()),
        (bytes(peer_place_in_queue_reply('xy', 9)), M.PeerPlaceInQueueReply.Request('xy', 9).serialize()),
        (bytes(distributed_branch_level(5)), M.DistributedBranchLevel.Request(5).serialize()),
        (bytes(server_get_user_status('ab', 2, 1)), M.GetUserStatus.Response('ab', 2, True).serialize()),
        (bytes(server_cannot_connect(77)), M.CannotConnect.Response(77).serialize()),
        (bytes(server_get_peer_address('bob', [1, 2, 3, 4], 67770, 1, 1235)),
         M.GetPeerAddress.Response('bob', '1.2.3.4', 67770, 1, 1235).serialize()),
        (bytes(server_connect_to_peer('ab', 'P', [1, 2, 3, 4], 1234, 99, 0, 1, 1235)),
         M.ConnectToPeer.Response('ab', 'P', '1.2.3.4', 1234, 99, False, 1, 1235).serialize()),
    ]
    for i, (a, b) in enumerate(checks):
        if a != bytes(b):
            raise symex.HarnessError(f'reference frame {i} differs from the real serializer: {a!r} vs {bytes(b)!r}')
    # reference first-frame verdict against the real parser on concrete bodies
    import random
    from aioslsk.exceptions import MessageDeserializationError
    rng = random.Random(10)
    bodies = [b'', b'\x00', b'\x00\x01\x02\x03', b'\x00\x01\x02\x03\x04', b'\x00\x01\x02\x03\x04\x05', b'\x02abcd',
              bytes(peer_init('ab', 'P', 7))[4:], bytes(peer_init('ab', 'P', 7))[4:-1], bytes(peer_init('ab', 'P', 7))[4:] + b'x',
              bytes(peer_init('', '', 7, 8))[4:], bytes(peer_init('ab', 'P', 7, 8))[4:] + b'zz', b'\x01\x02\x00\x00\x00\xff\xfe\x01\x00\x00\x00P\x00\x00\x00\x00',
              b'\x01\x02\x00\x00\x00\x81\x8d\x01\x00\x00\x00P\x00\x00\x00\x00']
    for _ in range(300):
        n = rng.randrange(0, 16)
        bd = bytearray(rng.randrange(256) for _ in range(n))
        if n and rng.random() < 0.8:
            bd[0] = rng.randrange(2)
        if n >= 5 and rng.random() < 0.7:
            bd[1:5] = rng.randrange(0, 4).to_bytes(4, 'little')
        bodies.append(bytes(bd))
    conn = PeerConnection('1.1.1.1', 1, None)
    n_ok = 0
    for bd in bodies:
        valid, matches = ref_first_frame(list(bd), [0x04030201])
        try:
            m = conn.decode_message_data(len(bd).to_bytes(4, 'little') + bd)
            real_init = isinstance(m, M.PeerInit.Request)
            real_match = isinstance(m, M.PeerPierceFirewall.Request) and m.ticket == 0x04030201
        except MessageDeserializationError:
            real_init = real_match = False
        if bool(valid) != (real_init or real_match) or bool(matches[0]) != real_match:
            raise symex.HarnessError(f'reference first-frame decoder disagrees with the real parser on {bd!r}: ref={valid},{matches} '
                                     f'real={real_init},{real_match}')
        n_ok += 1
    return f'reference frames == real serializers on 8 messages; reference first-frame verdict == real parser on {n_ok} concrete bodies'


def _validate_arguments():
    """engine.c10env.check_address against the REAL asyncio.open_connection for an IP-literal host: same exception class for bad
    arguments, raised without yielding to the loop; in-range ports fail (nothing listens) with an OSError only"""
    cases = [('127.0.0.1', 67770), ('127.0.0.1', 65536), ('127.0.0.1', 2 ** 32 - 1), ('127.0.0.1', -1), ('127.0.0.1', 0),
             ('127.0.0.1', 1), ('127.0.0.1', 65535), ('127.0.0\x00.1', 80)]
    out = []

    async def real(host, port):
        ran = []
        asyncio.get_running_loop().call_soon(ran.append, 1)
        try:
            _, w = await asyncio.wait_for(asyncio.open_connection(host, port), 5)
            w.close()
            return 'connected', bool(ran)
        except OSError:
            return 'OSError', None
        except Exception as e:  # noqa
            return type(e).__name__, bool(ran)
    for host, port in cases:
        try:
            c10env.check_address(host, port)
            fake = 'accepted'
        except Exception as e:  # noqa
            fake = type(e).__name__
        got, yielded = asyncio.run(real(host, port))
        if fake == 'accepted':
            ok = got in ('OSError', 'connected')
        else:
            ok = got == fake and yielded is False
        if not ok:
            raise symex.HarnessError(f'check_address disagrees with asyncio.open_connection on {host!r}:{port!r}: fake={fake} real={got} '
                                     f'yielded={yielded}')
        out.append(f'{port!r}->{got}')
    return 'check_address == real asyncio.open_connection on IP-literal hosts (bad arguments raise the same non-OSError class without ' \
           'yielding; in-range ports only OSError): ' + ', '.join(out)


def _validate_wire():
    """engine.c10env.Wire against real asyncio streams over a socketpair: close -> EOF for the reader of the same transport and
    wait_closed() returns, write after close is dropped, drain after the loss raises ConnectionResetError"""
    import socket

    async def real():
        a, b = socket.socketpair()
        r, w = await asyncio.open_connection(sock=a)
        out = []
        w.write(b'x')
        await w.drain()
        w.close()
        out.append(('closing', w.is_closing()))
        w.write(b'late')                     # dropped silently
        try:
            await w.drain()
            out.append('drain ok')
        except ConnectionResetError:
            out.append('drain ConnectionResetError')
        await w.wait_closed()
        out.append(('eof', await r.read(10)))
        b.close()
        return out

    async def fake():
        st = c10env.Streams(False)
        wire = st.wire(('h', 1), ('l', 2), 't')
        r, w = wire.reader, wire.writer
        out = []
        w.write(b'x')
        await w.drain()
        w.close()
        out.append(('closing', w.is_closing()))
        w.write(b'late')
        try:
            await w.drain()
            out.append('drain ok')
        except ConnectionResetError:
            out.append('drain ConnectionResetError')
        await w.wait_closed()
        out.append(('eof', bytes(await r.read(10))))
        if [d for _, d in w.written] != [b'x'] or [d for _, d in w.dropped] != [b'late']:
            raise symex.HarnessError('Wire: write bookkeeping')
        return out
    a, b = asyncio.run(real()), asyncio.run(fake())
    if a != b:
        raise symex.HarnessError(f'Wire disagrees with asyncio streams: real={a} fake={b}')
    return f'Wire == asyncio streams over a socketpair on close / write-after-close / drain-after-close / wait_closed / EOF ({a})'
