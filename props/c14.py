"""C14: search requests flow down the tree exactly once and are answered to the asker.

The three carrier handlers of the real DistributedNetwork, send_messages_to_children, the real
PeerConnection.queue_messages / send_message (closing check), and the real SearchManager handlers
with _query_shares_and_reply run on a virtual loop.  Ticket, `unknown`, `distributed_code`, file
sizes are z3 Ints; asker / query are tokens (incl. the own name).  The shares query itself is a
stub that returns real SharedItem objects (the query is property C07)."""
from __future__ import annotations

import itertools
import os as _os
import types

from engine import symex
from engine.symex import SInt
from engine import fakes_dist as fd
from engine.fakes_dist import World, nm, tok, qtok, same, conj, OWN

import aioslsk.shares.utils as shares_utils
from aioslsk.distributed import DistributedNetwork, DistributedPeer
from aioslsk.network.connection import CloseReason, ConnectionState, DataConnection, ListeningConnection
from aioslsk.network.network import Network
from aioslsk.protocol.messages import (
    DistributedBranchLevel, DistributedBranchRoot, DistributedSearchRequest, DistributedServerSearchRequest, PeerSearchReply, ServerSearchRequest,
)
from aioslsk.search.manager import SearchManager
from aioslsk.shares.model import SharedDirectory, SharedItem
from aioslsk.shares.utils import convert_item_to_file_data, convert_items_to_file_data

PROPERTY = 'C14'
U32 = 2 ** 32 - 1
_MISSING = object()
DSR_CODE = 3        # DistributedSearchRequest message id: the only code the legacy wrapper carries a search with

CARRIERS = ('server', 'distributed', 'legacy')
ROLES = ('absent', 'cand', 'child', 'parent', 'closing_child', 'closed_child')


class FakeShares:
    """SharesManager.query stand-in: returns the (visible, locked) lists the harness prepared"""

    def __init__(self):
        self.result = ([], [])
        self.calls = []

    def query(self, query, username=None, excluded_search_phrases=None):
        self.calls.append((query, username))
        return list(self.result[0]), list(self.result[1])


class FakeUploads:
    def has_slots_free(self):
        return True

    def get_average_upload_speed(self):
        return 0.0

    def get_queue_size(self):
        return 0


class FileSizes:
    """the file system as seen by shares.utils.convert_item_to_file_data: os.path.getsize"""

    def __init__(self):
        self.sizes = {}
        self.saved = _MISSING

    def __enter__(self):
        g = shares_utils.__dict__
        self.saved = g.get('os', _MISSING)
        g['os'] = types.SimpleNamespace(path=types.SimpleNamespace(getsize=self.getsize, splitext=_os.path.splitext,
                                                                    join=_os.path.join))
        return self

    def getsize(self, path):
        if path not in self.sizes:
            raise OSError(path)
        return self.sizes[path]

    def __exit__(self, *a):
        g = shares_utils.__dict__
        if self.saved is _MISSING:
            g.pop('os', None)
        else:
            g['os'] = self.saved


SHARED_DIR = SharedDirectory('music', '/share/music', 'abcde')


def mk_items(c, fs, prefix, n):
    out = []
    for i in range(n):
        it = SharedItem(SHARED_DIR, 'album', f'{prefix}{i}.mp3', 0.0)
        fs.sizes[it.get_absolute_path()] = c.fresh_int(f'size_{prefix}{i}', 0, 2 ** 64 - 1)
        out.append(it)
    return out


def build_tree(c, w: World, roles, symbolic_names=False):
    """puts the peers into the given roles; closing/closed children get there through the real disconnect().
    `symbolic_names`: the user name of every (open, closing or closed) child is a token in a 3-value domain, so two
    child connections may or may not belong to the same user; otherwise the names are pairwise different."""
    dn = w.dn
    conns = {}
    for i, r in enumerate(roles):
        if r == 'absent':
            continue
        if symbolic_names and r in ('child', 'closing_child', 'closed_child'):
            u = tok(c, f'u{i}', 1, 3)
        else:
            u = nm(c, i + 1)
        conn = conns[i] = w.new_peer_conn(u, hang_close=(r == 'closing_child'))
        peer = DistributedPeer(u, conn)
        dn.distributed_peers.append(peer)
        if r in ('child', 'closing_child', 'closed_child'):
            dn.children.append(peer)
        elif r == 'parent':
            dn.parent = peer
            peer.branch_level = 1
            peer.branch_root = nm(c, 5)
    for i, r in enumerate(roles):
        if r == 'closed_child':
            w.ev_close(conns[i])
        elif r == 'closing_child':
            w.start(conns[i].disconnect(CloseReason.REQUESTED))
            w.settle()
            if conns[i].state is not ConnectionState.CLOSING:
                raise symex.HarnessError('closing child did not stay in CLOSING')
    return conns


def live_children(roles, conns):
    """reference fan-out set: connections that were accepted as children (role book-keeping of the harness: from the
    admission until the connection closes) and are open, i.e. not closing / closed (a connection accepted on the
    listening port is a child while its accept callback is still running and its state is not CONNECTED yet).
    Deliberately not read from DistributedNetwork.children."""
    return [conn for i, conn in conns.items()
            if roles[i] == 'child' and conn.state not in (ConnectionState.CLOSING, ConnectionState.CLOSED)]


def one_request(c, w: World, sm, shares, fs, conns, roles, carrier, tag, matches=None, fixed_sender=None,
                lenient=(), after_deliver=None, sig_extra=()):
    """`matches`: None = the shares have no match (fan-out harness); 'any' = 0..2 visible and 0..2 locked matches.
    `lenient`: peers whose socket fails / closes during this fan-out (at most one frame instead of exactly one).
    `after_deliver`: environment activity while the fan-out is in flight (close of a child, socket recovers)."""
    dn = w.dn
    has_session = dn._session is not None
    check_answer = True
    asker = tok(c, f'asker{tag}', 0, 2 if matches else 1)
    ticket = c.fresh_int(f'ticket{tag}', 0, U32)
    unknown = c.fresh_int(f'unknown{tag}', 0, U32)
    query = qtok(c, f'query{tag}')
    nv = c.choose(3, f'n_visible{tag}') if matches else 0
    nl = c.choose(3, f'n_locked{tag}') if matches else 0
    visible = mk_items(c, fs, f'v{tag}_', nv)
    locked = mk_items(c, fs, f'l{tag}_', nl)
    shares.result = (visible, locked)
    # who sends it
    sender_role = 'server'
    sender = w.server
    code_ok = True
    if carrier == 'server':
        code = c.fresh_int(f'code{tag}', 0, 255)
        msg = ServerSearchRequest.Response(code, unknown, asker, ticket, query)
    else:
        cands = [i for i, r in enumerate(roles) if r in ('parent', 'child', 'cand') and conns[i].state is ConnectionState.CONNECTED]
        if not cands:
            return False
        si = fixed_sender if fixed_sender in cands else c.pick(cands, f'sender{tag}')
        sender = conns[si]
        sender_role = roles[si]
        if carrier == 'distributed':
            msg = DistributedSearchRequest.Request(unknown, asker, ticket, query)
        else:
            code = c.fresh_int(f'code{tag}', 0, 255)
            msg = DistributedServerSearchRequest.Request(code, unknown, asker, ticket, query)
            code_ok = same(code, DSR_CODE)
            if not isinstance(code_ok, bool):
                code_ok = bool(code_ok)      # same condition the handler forks on
    before = {i: len(w.frames(conn)) for i, conn in conns.items()}
    before_server = len(w.frames(w.server))
    before_replies = len(w.peer_replies)
    fanout = live_children(roles, conns)
    w.deliver(msg, sender)
    if after_deliver is not None:
        after_deliver()
    w.settle()
    c.reach('request_' + carrier)
    # "originates from the logged-in user": only defined while somebody is logged in
    own_req = False
    if has_session:
        own_req = same(asker, w.own)
        if not isinstance(own_req, bool):
            own_req = bool(own_req)
    sig = [carrier, sender_role, 'own_name' if own_req else 'other_user', 'session' if has_session else 'no_session'] + list(sig_extra)
    new = {i: w.frames(conn)[before[i]:] for i, conn in conns.items()}
    if not c.symbolic:
        c.note('request', sig, {'asker': asker, 'ticket': ticket, 'query': query, 'matches': [nv, nl],
                                'frames per peer': {f'{roles[i]}#{i}': [repr(f) for f in fr] for i, fr in new.items()},
                                'replies': [(to, type(m).__name__, getattr(m, 'ticket', None)) for to, m in w.peer_replies[before_replies:]]})
    # ---- to no other connection
    for i, conn in conns.items():
        if not any(conn is x for x in fanout):
            c.check(len(new[i]) == 0, 'nothing_to_non_children', sig=sig + [roles[i]])
    c.check(len(w.frames(w.server)) == before_server, 'nothing_to_non_children', sig=sig + ['server'])
    from_above = sender_role in ('server', 'parent')
    if code_ok and from_above:
        for i, conn in conns.items():
            if not any(conn is x for x in fanout):
                continue
            # what we tell a (new) child about our position is not search traffic
            fr = [f for f in new[i] if type(f) not in (DistributedBranchLevel.Request, DistributedBranchRoot.Request)]
            if own_req:
                c.check(len(fr) == 0, 'own_search_not_forwarded', sig=sig)
                continue
            c.reach('forwarded')
            if i in lenient:
                c.check(len(fr) <= 1, 'forwarded_exactly_once', sig=sig + ['failing_socket'])
            else:
                c.check(len(fr) == 1, 'forwarded_exactly_once', sig=sig)
            if len(fr) >= 1:
                f = fr[0]
                c.check(type(f) is DistributedSearchRequest.Request, 'forwarded_as_search_request', sig=sig)
                if type(f) is DistributedSearchRequest.Request:
                    c.check(conj(same(f.username, asker), same(f.ticket, ticket), same(f.query, query)),
                            'forwarded_same_user_ticket_query', sig=sig)
    # ---- the answer
    replies = w.peer_replies[before_replies:]
    if check_answer and code_ok and has_session:
        if own_req:
            c.check(len(replies) == 0, 'own_search_not_answered', sig=sig)
        else:
            want = 1 if nv + nl > 0 else 0
            c.reach('answer_expected' if want else 'no_answer_expected')
            c.check(len(replies) == want, 'one_reply_iff_matches', sig=sig + [nv, nl])
            for to, rep in replies[:1]:
                c.check(same(to, asker), 'reply_goes_to_asker', sig=sig)
                ok = type(rep) is PeerSearchReply.Request
                c.check(ok, 'reply_is_search_reply', sig=sig)
                if ok:
                    c.check(conj(same(rep.ticket, ticket), same(rep.username, w.own)), 'reply_ticket_and_own_name', sig=sig)
                    res, lres = list(rep.results or []), list(rep.locked_results or [])
                    c.check([x.filename for x in res] == [it.get_remote_path() for it in visible]
                            and [x.filename for x in lres] == [it.get_remote_path() for it in locked],
                            'reply_carries_those_files', sig=sig)
                    if len(res) == nv and len(lres) == nl:
                        sizes = [same(x.filesize, fs.sizes[it.get_absolute_path()]) for x, it in zip(res + lres, visible + locked)]
                        c.check(conj(*sizes) if sizes else True, 'reply_carries_those_files', sig=sig)
    return True if carrier == 'server' else si


def mk_world(c, session=True):
    w = World(c, with_session=session)
    shares = FakeShares()
    sm = w.loop.call(SearchManager, w.settings, w.bus, shares, FakeUploads(), w.net)
    if session:
        sm._session = w.session
    return w, sm, shares


def h_fanout(c, roles, carrier, session=True):
    """one request into a tree of the given shape, then a membership change, then a second request"""
    with FileSizes() as fs:
        w, sm, shares = mk_world(c, session)
        conns = build_tree(c, w, roles, symbolic_names=True)
        first = one_request(c, w, sm, shares, fs, conns, roles, carrier, '')
        if first is False:
            w.cleanup()
            return
        # membership change between the requests
        roles = list(roles)
        changes = ['none', 'join', 'join_relayed'] + [f'leave{i}' for i, r in enumerate(roles) if r == 'child'] \
            + [f'closing{i}' for i, r in enumerate(roles) if r == 'child']
        ch = c.pick(changes, 'change')
        if ch in ('join', 'join_relayed'):
            u = tok(c, 'u_join', 1, 3)      # may be a user that already is a child on another connection
            w.dn._accept_children, w.dn._max_children = True, 10
            # through the real paths: it dials our listening port (accept) / it asks through the server and we dial it
            nc, _ = w.accept_incoming(u) if ch == 'join' else w.connect_to_peer(u)
            i = len(roles)
            conns[i] = nc
            # acceptance on, limit far away, nobody proposed as potential parent: it is a child until its connection closes
            roles.append('child')
            # the new child was told our position; those frames are not search traffic
        elif ch.startswith('leave'):
            i = int(ch[5:])
            w.ev_close(conns[i])
            roles[i] = 'closed_child'
        elif ch.startswith('closing'):
            i = int(ch[7:])
            conns[i].fake_writer.hang_close = True
            w.start(conns[i].disconnect(CloseReason.REQUESTED))
            w.settle()
            roles[i] = 'closing_child'
        if ch != 'none':
            c.reach('membership_changed')
            one_request(c, w, sm, shares, fs, conns, roles, carrier, '_2', fixed_sender=None if first is True else first)
        w.cleanup()


def h_fault(c, roles, carrier, fault):
    """a socket misbehaves while a request is fanned out.  fault = ['drain_error', i] / ['write_error', i]: the socket
    of child i fails on this write (the connection code closes it); ['stall_close', k, j]: the socket of child k does
    not drain, child j closes meanwhile, then k recovers.  Every other open child gets the request exactly once, the
    affected one at most once, nobody else anything; a second request reaches exactly the children that are still open."""
    with FileSizes() as fs:
        w, sm, shares = mk_world(c, True)
        roles = list(roles)
        conns = build_tree(c, w, roles)
        kind = fault[0]
        after = None
        if kind in ('drain_error', 'write_error'):
            i = fault[1]
            conns[i].fake_writer.fault = 'drain' if kind == 'drain_error' else 'write'
            lenient = (i,)
        else:
            k, j = fault[1], fault[2]
            conns[k].fake_writer.hang_drain = True
            lenient = (k, j)

            def after():
                w.settle()
                c.reach('stalled' if w.loop.pending_tasks() else 'not_stalled')
                w.ev_close(conns[j])
                conns[k].fake_writer.release()
        first = one_request(c, w, sm, shares, fs, conns, roles, carrier, '', lenient=lenient, after_deliver=after,
                            sig_extra=[kind])
        if first is False:
            w.cleanup()
            return
        for i, conn in conns.items():
            conn.fake_writer.fault = None
            if roles[i] == 'child' and conn.state is not ConnectionState.CONNECTED:
                roles[i] = 'closed_child'
        c.reach('fault_' + kind)
        one_request(c, w, sm, shares, fs, conns, roles, carrier, '_2', fixed_sender=None if first is True else first,
                    sig_extra=['after_' + kind])
        w.cleanup()


def h_accept(c, roles, carrier, stall, path='accept'):
    """a child is admitted through the real accept path (ListeningConnection.accept -> Network.on_peer_accepted ->
    PeerInitializedEvent -> _add_child); the connection state is whatever the real code sets (UNINITIALIZED until the
    accept callback returns).  The callback is still suspended - stall = 'socket' / 'socket_root': the child's socket
    does not drain at the level / root frame of _add_child; 'listener': another PeerInitializedEvent listener takes
    its time - when a search request comes in: the new child is a current child and gets it exactly once."""
    from aioslsk.events import PeerInitializedEvent
    with FileSizes() as fs:
        w, sm, shares = mk_world(c, True)
        roles = list(roles)
        conns = build_tree(c, w, roles)
        w.dn._accept_children, w.dn._max_children = True, 10
        gate = None
        if stall == 'listener':
            gate = w.loop.create_future()

            async def slow_listener(event):
                await gate
            w.extra_listener = slow_listener        # the bus only keeps weak references
            w.bus.register(PeerInitializedEvent, slow_listener)
        u = tok(c, 'u_new', 1, 3)
        hang = {'socket': 1, 'socket_root': 2}.get(stall, 0)
        if path == 'accept':
            nc, task = w.accept_incoming(u, hang_from=hang)
        else:
            # server-relayed: the real Network._handle_connect_to_peer dials the peer, sends PeerPierceFirewall and emits
            # PeerInitializedEvent(requested=False) for a connection whose `incoming` flag is False
            nc, task = w.connect_to_peer(u, hang_from=hang)
            if nc.incoming:
                raise symex.HarnessError('relayed connection is flagged incoming')
        i = len(roles)
        conns[i] = nc
        # acceptance is on, the limit is far away, nobody was proposed as potential parent: a peer that connects to us
        # (either way) is a child from here on - by the reference, whatever the code's children list says
        roles.append('child')
        suspended = task is not None and not task.done()
        c.reach('accept_suspended' if suspended else 'accept_finished')
        if suspended:
            c.reach('child_while_accepting')
            if path == 'accept' and nc.state is ConnectionState.CONNECTED:
                raise symex.HarnessError('accepted connection CONNECTED before the accept callback returned')

        def resume():
            w.settle()
            nc.fake_writer.release()
            if gate is not None and not gate.done():
                w.loop.call(gate.set_result, None)
        first = one_request(c, w, sm, shares, fs, conns, roles, carrier, '', after_deliver=resume,
                            sig_extra=[('accepting_' if path == 'accept' else 'relayed_') + stall])
        if first is False:
            w.cleanup()
            return
        c.check((task is None or task.done()) and nc.state is ConnectionState.CONNECTED, 'accept_completes', sig=[path, stall])
        one_request(c, w, sm, shares, fs, conns, roles, carrier, '_2', fixed_sender=None if first is True else first,
                    sig_extra=['accepted'])
        w.cleanup()


def h_answer(c, carrier, session=True):
    """the local answer: a request into a small tree (parent, child, candidate) with 0..2 visible and 0..2 locked matches"""
    roles = ['child', 'parent', 'cand']
    with FileSizes() as fs:
        w, sm, shares = mk_world(c, session)
        conns = build_tree(c, w, roles)
        one_request(c, w, sm, shares, fs, conns, roles, carrier, '', matches='any')
        w.cleanup()


FUNCS = [DistributedNetwork._on_server_search_request, DistributedNetwork._on_distributed_search_request,
         DistributedNetwork._on_distributed_server_search_request, DistributedNetwork.send_messages_to_children,
         DistributedNetwork._on_message_received, DistributedNetwork._on_state_changed, DistributedNetwork._remove_child,
         DistributedNetwork._on_peer_connection_initialized, DistributedNetwork._check_if_new_child, DistributedNetwork._add_child,
         SearchManager._on_server_search_request, SearchManager._on_distributed_search_request,
         SearchManager._on_distributed_server_search_request, SearchManager._query_shares_and_reply,
         SearchManager._on_message_received, convert_items_to_file_data, convert_item_to_file_data,
         DataConnection.queue_message, DataConnection.queue_messages, DataConnection.send_message, DataConnection._send,
         DataConnection.disconnect, Network.on_message_received, Network.on_state_changed, Network.on_peer_accepted,
         Network._finalize_peer_connection, ListeningConnection.accept, DataConnection.receive_message_object,
         Network._on_connect_to_peer, Network._handle_connect_to_peer, DataConnection.connect]

META = {
    'level': 'other',
    'technique': 'symbolic execution of the real search-forwarding and search-answering handlers on z3 Int proxies (ticket, unknown, '
                 'distributed_code, file sizes) and small-domain name/query tokens; per-connection frame counts and frame fields compared '
                 'with a reference fan-out set; tree shape, carrier, sender and membership change are enumerated',
    'explanation': 'Real DistributedNetwork and real SearchManager share one real EventBus; a request is handed to the real '
                   'Network.on_message_received. Children, parent and candidates are real PeerConnection objects with recording sockets, so the '
                   'frames counted are what StreamWriter.write received after the real queue_messages/send_message (which drops frames on a '
                   'closing connection). Closed and closing children are produced by the real disconnect(). Ticket, unknown, distributed_code '
                   'and the file sizes are z3 Ints, asker and query are tokens incl. the own name; z3 decides field equality between the '
                   'request and every forwarded frame / the reply. Who is a child is book-kept by the harness (from admission until the '
                   'connection closes), not read from DistributedNetwork.children; child user names are tokens, so the same user may be a child '
                   'on two connections. A fault harness lets one child socket fail or stall (and another child close) during the fan-out.',
    'functions': FUNCS,
    'stubs': ['SharesManager.query -> returns the prepared (visible, locked) lists of real SharedItem objects (the query is C07)',
              'shares.utils.os.path.getsize -> harness table of symbolic sizes (both modes: there are no files)',
              'UploadInfoProvider -> constant stub', 'Network.send_peer_messages -> recorder (the reply would open a P connection)',
              'fault harness: FakeWriter.write / drain raise ConnectionResetError once, or drain waits until released (environment faults, kept in replay)',
              'server-relayed admission: the real Network._on_connect_to_peer / _handle_connect_to_peer / DataConnection.connect run; only asyncio.open_connection '
              '(-> FakeReader/FakeWriter) and settings.debug.ip_overrides (-> "nothing configured") are replaced',
              'accept harness: the new child comes in through the real ListeningConnection.accept / Network.on_peer_accepted on a FakeReader that delivers the PeerInit bytes '
              '(symbolic runs: decode_message_data of that connection returns the PeerInit object carrying the name token); its socket stalls, or an extra PeerInitializedEvent listener waits',
              'Network built with object.__new__ (see engine/fakes_dist.py)', 'StreamWriter -> recording FakeWriter; wait_closed() of a "closing" child does not return',
              'symbolic runs only: connection.encode_message_data -> identity; Settings.credentials.username -> own-name token',
              'logging disabled', 'asyncio loop -> engine.vloop.VLoop'],
    'data_variables': ['user name token of every child connection incl. a joining one (3 values; two child connections may belong to the same user)', 'ticket (uint32)', 'unknown (uint32)', 'distributed_code (0..255)', 'asker name token (3 values incl. own name)',
                       'query token (4 values)', 'file size of every result (uint64)'],
    'discriminants': ['how a joining child reaches us: real accept path / real server-relayed path (ConnectToPeer, connection.incoming False)', 'accept harness: what keeps the accept callback suspended (child socket at the level / root frame, another listener)', 'fault harness: which child socket fails (write / drain error) or stalls, which child closes meanwhile', 'carrier (3)', 'role of each of 4 peers (absent/candidate/child/parent/closing child/closed child)', 'sender of a distributed carrier',
                      'number of visible / locked matches (0..2 each)', 'membership change between two requests (none/join/leave/closing)', 'session present'],
    'bounds': {'quick': {'peers': 4, 'shapes': 'representative shapes with 0..3 children', 'requests': 2},
               'thorough': {'peers': 4, 'shapes': 'every multiset of roles with at most one parent, in two list orders', 'requests': 2}},
    'outside': ['which files match (C07) and which are locked (C08): the query result is an input here',
                'requests received from a child or a candidate: only "nothing reaches a non-child" and the answer clause are checked for them '
                '(the property speaks about requests from the server or the parent)',
                'legacy wrapper with a distributed_code other than 3: only "nothing reaches a non-child" is checked',
                'server search without a session (the server reader only runs while a session exists); without a session the answer clause is not checked',
                'blocked users (settings.users.blocked is empty)', 'delivery failures of the reply (send_peer_messages is a recorder)', 'more than one failing / stalled socket per fan-out',
                'more than two requests / 4 peers'],
    'assumptions': ['remote peers do not carry the logged-in user name as connection user name'],
}

QUICK_SHAPES = [
    ['absent', 'absent', 'absent', 'parent'],
    ['child', 'absent', 'absent', 'parent'],
    ['child', 'child', 'cand', 'parent'],
    ['child', 'child', 'child', 'parent'],
    ['child', 'closing_child', 'closed_child', 'parent'],
    ['cand', 'child', 'closed_child', 'absent'],
    ['child', 'child', 'child', 'absent'],
    ['parent', 'child', 'cand', 'closing_child'],
]


def jobs(tier):
    out = []
    if tier == 'quick':
        shapes = QUICK_SHAPES
    else:
        # every multiset of roles over 4 peers with at most one parent, in two list orders (the order of the
        # children / distributed_peers lists is the only thing a permutation changes)
        shapes = []
        for t in itertools.combinations_with_replacement(ROLES, 4):
            if sum(1 for r in t if r == 'parent') <= 1:
                for o in (list(t), list(reversed(t))):
                    if o not in shapes:
                        shapes.append(o)
    for shape in shapes:
        for carrier in CARRIERS:
            req = ['request_' + carrier] if (carrier == 'server' or any(r in ('parent', 'child', 'cand') for r in shape)) else []
            out.append({'harness': 'fanout', 'fn': h_fanout, 'params': {'roles': shape, 'carrier': carrier, 'session': True},
                        'requires': req})
    fault_shapes = [['child', 'child', 'child', 'parent']] if tier == 'quick' else \
        [['child', 'child', 'child', 'parent'], ['child', 'child', 'cand', 'parent'], ['parent', 'child', 'child', 'child'],
         ['child', 'closing_child', 'child', 'parent']]
    for shape in fault_shapes:
        kids = [i for i, r in enumerate(shape) if r == 'child']
        faults = [['drain_error', i] for i in kids] + [['write_error', i] for i in kids[:-1]] \
            + [['stall_close', k, j] for k in kids for j in kids if j <= k]
        for carrier in CARRIERS:
            for f in faults:
                out.append({'harness': 'fault', 'fn': h_fault, 'params': {'roles': shape, 'carrier': carrier, 'fault': f},
                            'requires': ['request_' + carrier, 'fault_' + f[0], 'forwarded']})
    acc_shapes = [['child', 'parent', 'absent', 'absent'], ['child', 'absent', 'absent', 'absent']] if tier == 'quick' else \
        [['child', 'parent', 'absent', 'absent'], ['child', 'absent', 'absent', 'absent'], ['absent', 'parent', 'absent', 'absent'],
         ['child', 'child', 'parent', 'cand'], ['child', 'closing_child', 'parent', 'absent']]
    for shape in acc_shapes:
        for carrier in CARRIERS:
            if carrier != 'server' and 'parent' not in shape:
                continue
            for stall in ('socket', 'socket_root', 'listener'):
                if stall == 'socket_root' and 'parent' not in shape:
                    continue        # a root frame is only sent at a level other than 0
                for path in ('accept', 'relayed'):
                    out.append({'harness': 'accept', 'fn': h_accept,
                                'params': {'roles': shape, 'carrier': carrier, 'stall': stall, 'path': path},
                                'requires': ['request_' + carrier, 'child_while_accepting', 'forwarded']})
    for carrier in CARRIERS:
        out.append({'harness': 'answer', 'fn': h_answer, 'params': {'carrier': carrier, 'session': True},
                    'requires': ['request_' + carrier, 'answer_expected', 'no_answer_expected']})
    for shape in (QUICK_SHAPES if tier == 'quick' else QUICK_SHAPES):
        for carrier in ('distributed', 'legacy'):
            out.append({'harness': 'fanout', 'fn': h_fanout, 'params': {'roles': shape, 'carrier': carrier, 'session': False},
                        'requires': ['request_' + carrier]})
    return out


def prelude(tier):
    from aioslsk.protocol.messages import DistributedMessage
    m = DistributedSearchRequest.Request(0x31, 'user2', 2 ** 32 - 1, 'q1')
    if DistributedMessage.deserialize_request(m.serialize()) != m:
        raise symex.HarnessError('frame decoding does not round-trip DistributedSearchRequest')
    if DistributedSearchRequest.Request.MESSAGE_ID != DSR_CODE:
        raise symex.HarnessError('legacy wrapper code')
    return ['frame decoder round-trips DistributedSearchRequest', 'legacy wrapper code == DistributedSearchRequest.MESSAGE_ID == 3']
