"""C06: once abort / pause / remove has returned for a transfer nothing more happens for it, and at
most one background negotiation (remote-queue attempt, upload/download initialisation) is in flight
per transfer.

Two harnesses, both on the real TransferManager / Transfer / TransferState code:

* `step`  - one `manage_transfers()` from an arbitrary pre-state (shared with C05,
  engine/fakes_transfer.step_harness): a transfer whose task slot holds an unfinished task gets no
  second task and keeps its handle; a task that is created is the one the handle points to.
* `cancel` - bounded scenario from the constructor state on the virtual loop with the real
  BackgroundTask management loop: 1..2 transfers for one peer, the way every peer send ends is a
  choice (ok / slow ok / error), a user call abort|pause|remove is issued at every loop step, extra
  management cycles are requested at idle points; after the call has returned the clock is advanced
  200 s and nothing may have happened for that transfer."""
from __future__ import annotations

import asyncio

from engine import symex
from engine import fakes_transfer as ft
from engine.fakes_transfer import ST, UP, DOWN, TLoop

from aioslsk.exceptions import ConnectionWriteError, InvalidStateTransition
from aioslsk.events import PeerInitializedEvent
from aioslsk.protocol.messages import (
    GetUserStatus, PeerTransferQueue, PeerTransferQueueFailed, PeerTransferRequest, PeerUploadFailed,
)
from aioslsk.user.manager import UserManager
from aioslsk.user.model import UserStatus
from engine import sstr
from aioslsk.transfer import manager as tm
from aioslsk.transfer.manager import TransferManager, _RequestFlag
from aioslsk.transfer.model import Transfer
from aioslsk.transfer.state import (
    TransferState, QueuedState, InitializingState, IncompleteState, UploadingState, FailedState, PausedState, AbortedState,
)
from aioslsk.tasks import BackgroundTask

PROPERTY = 'C06'

OUTCOMES = {'ok': ('ok', 0), 'slow_ok': ('ok', 30), 'slow_err': ('err', 30), 'err': ('err', 0)}
FIELDS = ('remotely_queued', 'place_in_queue', 'fail_reason', 'abort_reason', 'filesize', 'bytes_transfered',
          'queue_attempts', 'last_queue_attempt', 'upload_request_attempts', 'last_upload_request_attempt',
          'start_time', 'complete_time', 'local_path')


def h_step(c, dirs, users):
    ft.step_harness(c, dirs, users, 'C06', inflight=True, sym_users=False, locks=True)


def _drive(loop, coro):
    """run a coroutine that must not suspend (set-up through the public API)"""
    def run():
        try:
            coro.send(None)
        except StopIteration as e:
            return e.value
        coro.close()
        raise symex.HarnessError('set-up coroutine suspended')
    return loop.call(run)


def _snapshot(t):
    return (t.state.VALUE,) + tuple(getattr(t, f) for f in FIELDS)


def _same(a, b):
    """equality of two field values that may be symbolic"""
    if a is b:
        return True
    if a is None or b is None:
        return False
    return a == b


def _trace(c, loop, w, T):
    """concrete replay only: a readable timeline in the replay notes"""
    def on_task(rec):
        who = next((i for i, t in enumerate(T) if t is rec['transfer']), None)
        c.note(f"t={loop.time():.2f} step={loop.steps} task {rec['name']} created: {rec['kind']} transfer={who}")
    loop.on_task = on_task
    real_send = w.net.send_peer_messages

    async def send(username, *messages, **kw):
        names = [type(m).__qualname__ for m in messages]
        c.note(f"t={loop.time():.2f} step={loop.steps} send_peer_messages begins {names}")
        try:
            await real_send(username, *messages, **kw)
        except BaseException as e:
            c.note(f"t={loop.time():.2f} step={loop.steps} send_peer_messages ends with {type(e).__name__} {names}")
            raise
        c.note(f"t={loop.time():.2f} step={loop.steps} DELIVERED {names}")
    w.net.send_peer_messages = send


def _mentions(message, t):
    return getattr(message, 'filename', None) == t.remote_path


def _ok(cond):
    """fold obligations that are constantly true after simplification (no solver query needed)"""
    if isinstance(cond, symex.SBool):
        import z3
        if z3.is_true(cond.e):
            return True
        if z3.is_false(cond.e):
            return False
    return cond


def _at(c, var, s):
    """is the (symbolic) step index `var` equal to the current boundary s?  forks once per boundary"""
    return bool(var == s)


class _PeerConn:
    """message connection of the peer as seen by the PeerTransferQueue / PeerTransferRequest handlers"""

    def __init__(self, username):
        self.username = username
        self.queued = []

    def queue_message(self, m):
        self.queued.append(m)

    async def send_message(self, m):
        await ft.LAT.wait('peer_connection.send_message')
        self.queued.append(m)


def _slot(rec):
    """which handle of the transfer a negotiation task belongs to"""
    return 'remote_queue' if rec['kind'] == '_queue_remotely' else 'transfer'


TICKET = 4711


def h_cancel(c, kind='download', init=('QUEUED',), op='abort', target=0, cycles=1, sends=2,
             outcomes=('ok', 'slow_ok', 'slow_err'), replies=1, max_steps=90, tail=False, peer_starts=False, report=None):
    loop = TLoop()
    up = kind == 'upload'
    phase = {'after_return': False, 'sends': 0}

    def policy(what, username, payload):
        if phase['after_return']:
            return ('ok', 0)      # whatever is still attempted now is already a violation; let it show
        if what == 'send':
            phase['sends'] += 1
            if phase['sends'] > sends:
                return ('ok', 100000)     # beyond the bound every further connection attempt just hangs
            return OUTCOMES[c.pick(outcomes, 'send_outcome')]
        return ('ok', 0)

    with ft.env(loop, c.symbolic):
        w = ft.build_world(loop, policy)
        ft.set_slots(w, 2)
        ft.add_user(w, 'peer0')
        T = []
        for i, st in enumerate(init):
            t = Transfer('peer0', f'music\\file{i}.mp3', UP if up else DOWN)
            t.queue_attempts = c.fresh_int(f'queue_attempts_t{i}', 0, None)
            if up:
                t.upload_request_attempts = c.fresh_int(f'upload_request_attempts_t{i}', 0, None)
                t.local_path = '/nonexistent/verif/share/file%d.mp3' % i
                t.filesize = w.net.filesize
            else:
                t.last_queue_attempt = c.fresh_real(f'last_queue_attempt_t{i}', 0)
                t.filesize = c.fresh_int(f'filesize_t{i}', 0, 2 ** 64 - 1)
            _drive(loop, w.manager.add(t))
            if st == 'QUEUED':
                _drive(loop, t.state.queue())
            elif st == 'INCOMPLETE':
                b = c.fresh_int(f'bytes_transfered_t{i}', 0, None)
                c.assume(b < t.filesize)
                t.bytes_transfered = b
                t.local_path = '/nonexistent/verif/dl/file%d.mp3' % i
                t.state = TransferState.init_from_state(ST.INCOMPLETE, t)
            elif st == 'FAILED':
                t.state = TransferState.init_from_state(ST.FAILED, t)   # fail_reason None: retried by the manager
            elif st == 'FAILED_REASON':
                # the peer refused the file earlier; its reason string is peer data and may be empty
                t.fail_reason = _peer_reason(c, f'fail_reason_t{i}')
                t.state = TransferState.init_from_state(ST.FAILED, t)
            else:
                raise symex.HarnessError(st)
            T.append(t)
        tgt = T[target]
        if not c.symbolic:
            _trace(c, loop, w, T)
        loop.call(w.manager._management_task.start)

        # first anomaly seen per transfer (finite tag, goes into the signature of a failure)
        cause = {}
        reported = set()
        prev_hook = loop.on_task

        def on_task(rec):
            if prev_hook is not None:
                prev_hook(rec)
            t = rec['transfer']
            if rec['kind'] not in ft.NEGOTIATION_COROS or all(t is not x for x in T):
                return
            i = next(k for k, x in enumerate(T) if x is t)
            others = [r for r in ft.live_negotiations(loop, t) if r is not rec and _slot(r) == _slot(rec)]
            if t._state_lock.locked():
                cause.setdefault(i, 'started_during_transition')
            elif others:
                cause.setdefault(i, 'second_negotiation_started')
        loop.on_task = on_task

        def observe():
            if peer_starts and tgt.state.VALUE == ST.DOWNLOADING:
                c.reach('download_in_progress')
                if op_box['task'] is not None and not op_box['task'].done():
                    c.reach('call_during_download')
            for i, t in enumerate(T):
                live = ft.live_negotiations(loop, t)
                if live:
                    handles = t.get_tasks()
                    lost = [r for r in live if all(r['task'] is not h for h in handles)]
                    if lost:
                        older = any(x['transfer'] is t and _slot(x) == _slot(lost[0]) and x['task'].done() for x in loop.task_log)
                        cause.setdefault(i, 'handle_cleared_by_older_task' if older else 'handle_dropped')
                # one remote-queue attempt and one initialisation may coexist (the peer starts the transfer
                # while our queue request is still on its way): they sit in different handles and are both
                # reached by cancel_tasks().  Two tasks for the same handle are never legitimate.
                per_slot = [sum(1 for r in live if _slot(r) == k) for k in ('remote_queue', 'transfer')]
                if max(per_slot) > 1 and i not in reported:
                    reported.add(i)
                    c.reach('two_negotiations_seen')
                    c.check(False, 'single_negotiation_in_flight', sig=[kind, init[i], cause.get(i, 'unknown'), 'scenario'],
                            info={'tasks': [r['kind'] for r in live], 't': loop.time()})

        opcall = {'abort': w.manager.abort, 'pause': w.manager.pause, 'remove': w.manager.remove}[op]
        op_step = c.fresh_int('op_step', 0, max_steps)
        op_task = None
        op_box = {'task': None}
        injected = replied = s = 0
        broke = requeued = requested = connected = 0
        while True:
            observe()
            if op_task is not None and op_task.done():
                break
            if s >= max_steps:
                raise symex.BoundHit('scenario longer than the step bound')
            if op_task is None and _at(c, op_step, s):
                c.note(f't={loop.time():.2f} step={loop.steps} user calls {op}(transfer {target}) state={tgt.state.VALUE.name}')
                op_task = op_box['task'] = loop.spawn(opcall(tgt), name='user-call')
            s += 1
            if loop.step():
                continue
            # idle: nothing is ready at this instant
            options = ['wait']
            if op_task is None and injected < cycles:
                options.append('cycle')
            waiter = w.net.pending_reply()
            if op_task is None and waiter is not None and replied < replies:
                options.append('reply_allowed')
            if tail and op_task is None:
                # the upload breaks while the file is being sent; the peer asks for the file again
                # while our PeerUploadFailed notification is still on its way
                conn = next((x for x in w.net.file_connections if not x.release.done() and not x.closed), None)
                if conn is not None and tgt.state.VALUE == ST.UPLOADING and not broke:
                    options.append('write_error')
                if tgt.state.VALUE == ST.FAILED and broke and not requeued:
                    options.append('peer_requeues')
            if peer_starts and op_task is None:
                # the uploader still had the file queued and starts the transfer itself: PeerTransferRequest
                # over its own connection, then its file connection arrives with the ticket
                fut = w.manager._file_connection_futures.get(TICKET)
                if not requested and tgt.state.VALUE in (ST.QUEUED, ST.INCOMPLETE, ST.FAILED):
                    options.append('peer_transfer_request')
                elif requested and not connected and fut is not None and not fut.done():
                    options.append('file_connection_arrives')
            what = c.pick(options, 'idle') if len(options) > 1 else 'wait'
            if what == 'peer_transfer_request':
                requested = 1
                size = c.fresh_int('offered_filesize', 4, 2 ** 64 - 1)
                msg = PeerTransferRequest.Request(direction=1, ticket=TICKET, filename=tgt.remote_path, filesize=size)
                loop.spawn(w.manager._on_peer_transfer_request(msg, _PeerConn('peer0')), name='peer-transfer-request')
            elif what == 'file_connection_arrives':
                connected = 1
                fc = ft.FakeFileConnection(w.net, 'peer0')
                fc.ticket = TICKET
                w.net.file_connections.append(fc)
                loop.spawn(w.manager._on_peer_initialized(PeerInitializedEvent(fc, requested=False)), name='file-connection')
            if what == 'write_error':
                broke = 1
                loop.call(conn.release.set_exception, ConnectionWriteError('fake: connection reset'))
            elif what == 'peer_requeues':
                requeued = 1
                loop.spawn(w.manager._on_peer_transfer_queue(PeerTransferQueue.Request(tgt.remote_path), _PeerConn('peer0')),
                           name='peer-queues-again')
            if what != 'wait':
                c.note(f't={loop.time():.2f} step={loop.steps} idle point: {what}')
            if what == 'cycle':
                injected += 1
                loop.call(w.manager.request_management_cycle, _RequestFlag.TRANSFER_CHANGE)
            elif what == 'reply_allowed':
                replied += 1
                loop.call(w.net.answer, waiter, True)
            elif not loop.jump() or loop.time() > 5000:
                if op_task is not None:
                    # everything else has settled (or only hanging connection attempts are left) and the
                    # call is still pending: it never returns (e.g. it waits for a task it did not cancel,
                    # or it deadlocks on the state lock) - the premise of the property can never be met
                    c.reach('op_never_returns')
                    c.check(False, 'call_returns', sig=[kind, init[target], op],
                            info={'t': loop.time(), 'alive': [r['kind'] for r in ft.live_negotiations(loop, tgt)]})
                    loop.cleanup()
                    return
                # last point: everything has settled (or only hanging connection attempts are left)
                c.assume(op_step >= s)
                c.note(f't={loop.time():.2f} step={loop.steps} user calls {op}(transfer {target}) state={tgt.state.VALUE.name}')
                op_task = op_box['task'] = loop.spawn(opcall(tgt), name='user-call')
        c.reach('op_done')
        err = op_task.exception() if not op_task.cancelled() else asyncio.CancelledError()
        if err is not None:
            # refused (illegal transition): the call did not take effect, the property says nothing
            c.check(isinstance(err, InvalidStateTransition), 'op_only_refuses_with_invalid_transition',
                    sig=[kind, op], info=repr(err))
            c.reach('op_refused')
            loop.cleanup()
            return
        c.reach('op_returned')
        c.note(f't={loop.time():.2f} step={loop.steps} {op} returned, state={tgt.state.VALUE.name}')
        sig = [kind, init[target], op, cause.get(target, 'not_cancelled')]
        # a task whose cancellation has been requested and that ends without doing anything more is
        # harmless; if it swallowed the cancellation the obligations below see what it does
        live = [r for r in ft.live_negotiations(loop, tgt) if r['task'].cancelling() == 0]
        state_ok = all(x is not tgt for x in w.manager.transfers) if op == 'remove' else \
            tgt.state.VALUE == (ST.ABORTED if op == 'abort' else ST.PAUSED)
        snap = _snapshot(tgt)
        def file_activity():
            """file connection attempts and writes made by tasks of the target transfer"""
            return [x for x in w.net.connects + w.net.file_writes if ft.transfer_of_task(loop, x['task']) is tgt]
        marks = (len(w.net.attempts), len(w.net.sent), len(file_activity()))
        pending_attempts = [a for a in w.net.attempts if a['status'] == 'pending' and any(_mentions(m, tgt) for m in a['messages'])]
        phase['after_return'] = True
        loop.advance(200)
        observe()
        c.reach('settled_after_return')
        new_msgs = [type(m).__qualname__ for (_, _, m) in w.net.sent[marks[1]:] if _mentions(m, tgt)]
        new_attempts = [a for a in w.net.attempts[marks[0]:] if any(_mentions(m, tgt) for m in a['messages'])]
        continued = [a for a in pending_attempts if a['status'] != 'cancelled']
        after = _snapshot(tgt)
        names = ('state',) + FIELDS
        changed = [(nm, _ok(_same(a, b))) for nm, a, b in zip(names, snap, after)]
        surely_changed = [nm for nm, eq in changed if eq is False]
        # (1) cancelling the transfer cancelled all of its negotiation
        if not c.check(not live, 'no_negotiation_left_after_return', sig=sig,
                       info={'alive_at_return': [r['kind'] for r in live], 'delivered_afterwards': new_msgs,
                             'fields_changed_afterwards': surely_changed}):
            loop.cleanup()
            return        # everything below is a consequence of the surviving task; reported in `info`
        c.check(state_ok, 'op_takes_effect', sig=sig)
        # (2) no message about the file, no connection attempt on its behalf
        c.check(not new_msgs, 'no_message_after_return', sig=sig, info={'messages': new_msgs})
        c.check(not new_attempts and not continued, 'no_connection_attempt_after_return', sig=sig,
                info={'new': len(new_attempts), 'continued': len(continued)})
        if up:
            c.check(len(file_activity()) == marks[2], 'no_file_connection_after_return', sig=sig)
        # (3) no field changes (symbolic counters / sizes / times: decided by z3)
        for nm, eq in changed:
            c.check(eq, 'no_field_change_after_return', sig=sig, info={'field': nm})
        c.check(not ft.live_negotiations(loop, tgt), 'no_negotiation_started_after_return', sig=sig)
        c.check(not loop.errors, 'no_loop_errors', sig=sig, info=repr(loop.errors[:1]))
        if report is not None:
            _after_report(c, loop, w, tgt, report, sig, marks, names)
        loop.cleanup()


REASON_MAXLEN = 2


def _peer_reason(c, base):
    """a reason string as a peer sends it: any string of length 0..2 over the alphabet of engine.sstr
    (symbolic characters; the length - the empty string included - is a choice)"""
    n = c.choose(REASON_MAXLEN + 1, base + '_len')
    return sstr.fresh_str(c, base, n)


def _after_report(c, loop, w, tgt, report, sig, marks, names):
    """the call has returned and 200 s have passed.  Now the peer reports a failure for that file
    (it had the request queued), then its status flaps and management cycles run.  The report itself is
    a legitimate peer event: what it changes directly (state / fail_reason for a queue failure,
    remotely_queued for an upload failure) is the new baseline; but it is not a re-queue, so afterwards
    still nothing may be sent / opened / changed for the file."""
    mgr = w.manager
    conn = _PeerConn('peer0')
    before = _snapshot(tgt)
    if report == 'queue_failed':
        reason = _peer_reason(c, 'reported_reason')
        c.note(f't={loop.time():.2f} peer reports PeerTransferQueueFailed, reason of length {len(reason)}')
        co = mgr._on_peer_transfer_queue_failed(PeerTransferQueueFailed.Request(tgt.remote_path, reason), conn)
        own = ('state', 'fail_reason')
    elif report == 'upload_failed':
        c.note(f't={loop.time():.2f} peer reports PeerUploadFailed')
        co = mgr._on_peer_upload_failed(PeerUploadFailed.Request(tgt.remote_path), conn)
        own = ('remotely_queued',)
    else:
        raise symex.HarnessError(report)
    loop.spawn(co, name='peer-failure-report')
    loop.run_ready()
    base = _snapshot(tgt)
    for nm, a, b in zip(names, before, base):
        if nm not in own:
            c.check(_ok(_same(a, b)), 'peer_report_changes_only_its_own_fields', sig=sig + [report], info={'field': nm})
    c.note(f't={loop.time():.2f} after the report: state={tgt.state.VALUE.name}')
    cycles = {'n': 0}
    real_manage = mgr.manage_transfers

    def manage_transfers():
        cycles['n'] += 1
        return real_manage()
    mgr.manage_transfers = manage_transfers
    server = object()
    for status in (UserStatus.OFFLINE, UserStatus.ONLINE, UserStatus.AWAY):
        msg = GetUserStatus.Response('peer0', status.value, False)
        loop.spawn(w.um._on_get_user_status(msg, server), name='status-update-users')
        loop.spawn(mgr._on_get_user_status(msg, server), name='status-update-transfers')
        loop.advance(1)
    loop.call(mgr.request_management_cycle, _RequestFlag.TRANSFER_CHANGE)
    loop.advance(100)
    if cycles['n'] < 2:
        raise symex.HarnessError('fewer than 2 management cycles after the peer report')
    c.reach('cycles_after_peer_report')
    rsig = sig + [report]
    new_msgs = [type(m).__qualname__ for (_, _, m) in w.net.sent[marks[1]:] if _mentions(m, tgt)]
    new_attempts = [a for a in w.net.attempts[marks[0]:] if any(_mentions(m, tgt) for m in a['messages'])]
    c.check(not new_msgs, 'no_message_after_return', sig=rsig, info={'messages': new_msgs, 'state': tgt.state.VALUE.name})
    c.check(not new_attempts, 'no_connection_attempt_after_return', sig=rsig, info={'new': len(new_attempts)})
    c.check(not ft.live_negotiations(loop, tgt), 'no_negotiation_started_after_return', sig=rsig)
    for nm, a, b in zip(names, base, _snapshot(tgt)):
        if nm == 'remotely_queued' and b is False:
            continue      # the peer went OFFLINE: its queue is gone, the flag is reset - direct effect of that peer event
        c.check(_ok(_same(a, b)), 'no_field_change_after_return', sig=rsig, info={'field': nm})
    c.check(not loop.errors, 'no_loop_errors', sig=rsig, info=repr(loop.errors[:1]))


META = {
    'level': 'other',
    'technique': 'symbolic execution of the real TransferManager.manage_transfers / _get_queued_transfers and of the real '
                 'abort/pause/remove, _queue_remotely, _initialize_upload, TransferState transitions and BackgroundTask management '
                 'loop on a virtual event loop; pre-state of the one-step part and the numeric fields of the scenario are z3 values; '
                 'obligations are z3 queries per path; schedules and fault outcomes are enumerated discriminants',
    'explanation': 'step: manage_transfers() runs from an arbitrary pre-state (per transfer: symbolic state, remotely_queued, '
                   'fail-reason-present and "task slot occupied by an unfinished task" flags, symbolic upload_slots). A transfer '
                   'with an occupied slot must get no second task and keep its handle; a created task must be the one the '
                   'handle points to. cancel: from the constructor state, 1..2 transfers for one peer run through the real '
                   'management loop with a fake network whose every send ends ok / slow ok (30 s) / error (30 s); abort, pause or '
                   'remove is issued at every loop step; extra management cycles are requested and a transfer reply is '
                   'delivered at idle points. After the call returned the virtual clock advances 200 s: no task of that '
                   'transfer is alive, no message naming the file is delivered, no send / file connection is attempted or '
                   'continued, and no field changes (queue_attempts, upload_request_attempts, last_queue_attempt, sizes are '
                   'symbolic, equality is decided by z3).',
    'functions': [TransferManager.manage_transfers, TransferManager._get_queued_transfers, TransferManager._prioritize_uploads,
                  TransferManager.get_free_upload_slots, TransferManager.abort, TransferManager.pause, TransferManager.remove,
                  TransferManager.add, TransferManager._queue_remotely, TransferManager._initialize_upload,
                  TransferManager._upload_file, TransferManager._on_peer_transfer_request, TransferManager._initialize_download,
                  TransferManager._download_file, TransferManager._on_peer_initialized, TransferManager._calculate_offset,
                  TransferManager._prepare_download_path, Transfer.reset_queue_vars, TransferManager._on_peer_transfer_queue_failed,
                  TransferManager._on_peer_upload_failed, TransferManager._on_get_user_status, TransferManager._reset_remotely_queued_flags,
                  UserManager._on_get_user_status, PausedState.fail, TransferManager._management_job, TransferManager.request_management_cycle,
                  TransferManager.on_transfer_state_changed, TransferManager.manage_user_tracking,
                  Transfer.cancel_tasks, Transfer.get_tasks, Transfer._remotely_queue_task_complete, Transfer._transfer_task_complete,
                  Transfer.transition, Transfer.increase_queue_attempts, Transfer.reset_queue_attempts,
                  QueuedState.abort, QueuedState.pause, QueuedState.initialize, InitializingState.abort, InitializingState.pause,
                  InitializingState.queue, InitializingState.start_transferring, IncompleteState.abort, IncompleteState.pause,
                  UploadingState.abort, UploadingState.pause, FailedState.queue, PausedState.queue, AbortedState.queue,
                  TransferState._cancel_transfer_tasks, BackgroundTask.runner],
    'stubs': ['Network -> engine.fakes_transfer.FakeNetwork (send_peer_messages / create_peer_connection end as chosen by the '
              'harness after a virtual delay, cancellation propagates; create_peer_response_future is a plain future)',
              'file connection -> FakeFileConnection (ticket/offset exchange succeeds, send_file / receive_file block until released); '
              'the peer message connection of the PeerTransferQueue / PeerTransferRequest handlers -> recorder',
              'SharesManager -> FakeShares (every file shared, fixed size)',
              'UserManager.track_user / untrack_user -> no-op coroutines (tracking traffic is C15)',
              'time.monotonic / time.time in aioslsk.transfer.manager and .model -> virtual clock of the loop',
              'aiofiles.open in aioslsk.transfer.manager -> in-memory handle; asyncos (aiofiles.os) in aioslsk.transfer.manager -> FakeFS',
              'asyncio event loop -> engine.vloop.VLoop subclass that records which coroutine/transfer each task was created for',
              'step only: Transfer.state -> object exposing VALUE as a lazily forking symbolic enum (real state classes in replay); '
              'list in aioslsk.transfer.manager -> list subclass that merges the outcomes of a symbolic slice bound',
              'peer reason strings -> engine.sstr.SStr (symbolic characters, concrete length per path; plain str in replay)',
              'progress reporting task not started (only the management BackgroundTask runs)'],
    'data_variables': ['upload_slots 0..4 (step)', 'remotely_queued / fail reason present / task in flight / transition in progress per transfer (Bool, step)',
                       'loop step at which the user call is issued (Int, split once per step)',
                       'queue_attempts, upload_request_attempts >= 0 (Int)', 'last_queue_attempt >= 0 (Real)',
                       'filesize 0..2^64-1, bytes_transfered < filesize (Int)',
                       'reason string of a peer failure report (PeerTransferQueueFailed after the call returned) and fail_reason of a download that '
                       'failed earlier: symbolic characters over the 18-character alphabet of engine.sstr, length 0..2 (the empty string included)'],
    'discriminants': ['direction and owner of each transfer (job parameters)', 'transfer state (symbolic index, forked lazily by the code)',
                      'initial state QUEUED / INCOMPLETE / FAILED-without-reason', 'user call abort / pause / remove',
                      'outcome of every peer send (ok, slow ok, slow error[, immediate error])',
                      'idle-point events: extra management cycle, transfer reply, write error while uploading, peer re-queues the file, '
                      'peer sends PeerTransferRequest for the download, its file connection arrives',
                      'after the call returned: kind of peer failure report (PeerTransferQueueFailed / PeerUploadFailed), length of its reason (0..2); '
                      'then a fixed sequence of status reports OFFLINE, ONLINE, AWAY for the peer through the real handlers and >= 2 management cycles'],
    'bounds': {'quick': {'step_shapes': 'U, D, UU (same/different user), UD, DD', 'scenario_transfers': '1..2 for one peer', 'peer_sends': 2,
                         'extra_cycles': 1, 'replies': 1, 'loop_steps': 90, 'clock_after_return': '200 s'},
               'thorough': {'step_shapes': 'all shapes of <= 3 transfers (owner patterns among uploads), UUUU x 2, UUUD',
                            'scenario_transfers': '1..2 for one peer, every initial state, both targets', 'peer_sends': '3 (two uploads: 2)',
                            'extra_cycles': '2 (uploads: 1)',
                            'replies': 1, 'loop_steps': 140, 'outcomes': 'downloads: plus immediate error', 'clock_after_return': '200 s'}},
    'outside': ['more management cycles / sends / transfers than the bound', 'real connection code (connect race, indirect connection: C10/C11)',
                'messages initiated by the peer after the call (PeerTransferRequest for an aborted download is answered with a refusal - '
                'a legitimate reply, not exercised here)', 'download histories beyond "the peer starts the transfer and the read is pending" (read errors, completion)',
                'TransferStateListeners other than the manager', 'stale-state dispatch in _with_state_lock (C03)'],
    'assumptions': ['asyncio Task/Future/Queue/Lock semantics of CPython 3.12 (FIFO ready queue)',
                    'a peer failure report and an OFFLINE status of the peer are legitimate peer events: their direct effect (PAUSED -> FAILED with the '
                    'reported reason; remotely_queued reset) is the new baseline, but they are not a re-queue',
                    'Network.send_peer_messages suspends at least once and propagates cancellation'],
}


def _users_patterns(n, max_users):
    """restricted growth strings: owner patterns up to renaming of users"""
    out = [[0]]
    for _ in range(n - 1):
        out = [p + [u] for p in out for u in range(min(max(p) + 1, max_users - 1) + 1)]
    return out


def prelude(tier):
    return ft.validate_fakes()


def jobs(tier):
    q = tier == 'quick'
    out = []
    if q:
        shapes = [('U', [0]), ('D', [0]), ('UU', [0, 0]), ('UU', [0, 1]), ('UD', [0, 0]), ('DD', [0, 0])]
    else:
        # users are concrete here: owner patterns only matter among uploads (one per user)
        shapes = [('U', [0]), ('D', [0]), ('UU', [0, 0]), ('UU', [0, 1]), ('UD', [0, 0]), ('DU', [0, 0]), ('DD', [0, 0])]
        shapes += [('UUU', u) for u in _users_patterns(3, 3)]
        shapes += [('UUD', [0, 0, 0]), ('UUD', [0, 1, 0]), ('UDU', [0, 0, 0]), ('UDU', [0, 0, 1]), ('DUU', [0, 0, 0]), ('DUU', [0, 0, 1]),
                   ('UDD', [0, 0, 0]), ('DUD', [0, 0, 0]), ('DDU', [0, 0, 0]), ('DDD', [0, 0, 0]),
                   ('UUUU', [0, 0, 1, 1]), ('UUUU', [0, 1, 0, 1]), ('UUUD', [0, 0, 1, 1])]
    for dirs, users in shapes:
        out.append({'harness': 'step', 'fn': h_step, 'params': {'dirs': dirs, 'users': users},
                    'requires': ['stepped', 'c06_step_occupied_slot', 'c06_step_started', 'c06_step_transition_in_progress']})
    if q:
        sc = dict(cycles=1, sends=2)
        upsc = dict(cycles=1, sends=2, outcomes=['ok', 'slow_err'])
    else:
        sc = dict(cycles=2, sends=3, outcomes=['ok', 'slow_ok', 'slow_err', 'err'], max_steps=140)
        upsc = dict(cycles=1, sends=3, outcomes=['ok', 'slow_ok', 'slow_err'], max_steps=140)
        upsc2 = dict(cycles=1, sends=2, outcomes=['ok', 'slow_ok', 'slow_err'], max_steps=140)
    req = ['op_done', 'settled_after_return']
    for op in ('abort', 'pause', 'remove'):
        for st in ('QUEUED', 'INCOMPLETE', 'FAILED'):
            r = ['op_done'] if (st == 'FAILED' and op != 'remove') else req     # abort/pause of FAILED is always refused
            out.append({'harness': 'cancel', 'fn': h_cancel, 'params': dict(kind='download', init=[st], op=op, target=0, **sc),
                        'requires': r})
            if not q or st == 'QUEUED':
                for target in (0, 1):
                    out.append({'harness': 'cancel', 'fn': h_cancel,
                                'params': dict(kind='download', init=[st, 'QUEUED'], op=op, target=target, **sc), 'requires': req})
        # the uploader starts the transfer itself while our remote-queue attempt hangs: the call comes during
        # INITIALIZING / DOWNLOADING and has to reach both tasks
        preq = req + ['download_in_progress', 'call_during_download']
        for st in (['QUEUED'] if q else ['QUEUED', 'INCOMPLETE', 'FAILED']):
            out.append({'harness': 'cancel', 'fn': h_cancel,
                        'params': dict(kind='download', init=[st], op=op, target=0, peer_starts=True, cycles=0 if q else 1,
                                       sends=1 if q else 2, outcomes=['slow_ok', 'slow_err'] if q else ['ok', 'slow_ok', 'slow_err']),
                        'requires': preq})
        if not q:
            out.append({'harness': 'cancel', 'fn': h_cancel,
                        'params': dict(kind='download', init=['QUEUED', 'QUEUED'], op=op, target=0, peer_starts=True, cycles=0,
                                       sends=2, outcomes=['slow_ok', 'slow_err']), 'requires': preq})
        # after the call returned the peer reports a failure for the file (reason: symbolic string, may be empty),
        # its status flaps, management cycles run: still nothing may happen for the file
        rsc = dict(cycles=0, sends=1, outcomes=['ok', 'slow_err']) if q else dict(cycles=1, sends=2, outcomes=['ok', 'slow_ok', 'slow_err'])
        rreq = req + ['cycles_after_peer_report']
        for rep in ('queue_failed', 'upload_failed'):
            if q and rep == 'upload_failed' and op != 'pause':
                continue
            for st in (['QUEUED'] if q else ['QUEUED', 'INCOMPLETE']):
                out.append({'harness': 'cancel', 'fn': h_cancel,
                            'params': dict(kind='download', init=[st], op=op, target=0, report=rep, **rsc), 'requires': rreq})
        if op == 'pause' or not q:
            for target in ((0,) if q else (0, 1)):
                out.append({'harness': 'cancel', 'fn': h_cancel,
                            'params': dict(kind='download', init=['QUEUED', 'QUEUED'], op=op, target=target, report='queue_failed',
                                           cycles=0, sends=2, outcomes=['ok', 'slow_err']), 'requires': rreq})
        # a download that FAILED earlier with a reason sent by the peer (symbolic, may be empty)
        out.append({'harness': 'cancel', 'fn': h_cancel,
                    'params': dict(kind='download', init=['FAILED_REASON'], op=op, target=0, cycles=1, sends=1 if q else 2,
                                   outcomes=['ok', 'slow_err'], **({'report': 'queue_failed'} if op == 'remove' else {})),
                    'requires': rreq if op == 'remove' else ['op_done']})
        out.append({'harness': 'cancel', 'fn': h_cancel, 'params': dict(kind='upload', init=['QUEUED'], op=op, target=0, **upsc),
                    'requires': req})
        if not q or op == 'abort':
            # the upload breaks, the peer re-queues the file while PeerUploadFailed is still being delivered
            out.append({'harness': 'cancel', 'fn': h_cancel,
                        'params': dict(kind='upload', init=['QUEUED'], op=op, target=0, tail=True, cycles=0, sends=2 if q else 3,
                                       outcomes=['ok', 'slow_ok']), 'requires': req})
        if not q:
            for target in (0, 1):
                out.append({'harness': 'cancel', 'fn': h_cancel,
                            'params': dict(kind='upload', init=['QUEUED', 'QUEUED'], op=op, target=target, **upsc2), 'requires': req})
    return out
