"""tools/stage_seed.py <srcdir> <PID> — copies patch.diff/demo_PID.py (+patch2/demo2) to the next free seeded/PID-n dirs; prints the names"""
import sys, os, shutil, re
src, pid = sys.argv[1], sys.argv[2]
V = os.path.dirname(os.path.dirname(os.path.abspath(__file__)))
nums = [int(m.group(1)) for d in os.listdir(os.path.join(V, 'seeded')) if (m := re.match(rf'{pid}-(\d+)$', d))]
n = max(nums or [0]) + 1
out = []
for patch, demo in (('patch.diff', f'demo_{pid}.py'), ('patch2.diff', f'demo2_{pid}.py')):
    p, d = os.path.join(src, patch), os.path.join(src, demo)
    if os.path.exists(p) and os.path.exists(d):
        dst = os.path.join(V, 'seeded', f'{pid}-{n}')
        os.makedirs(dst)
        shutil.copy(p, os.path.join(dst, 'patch.diff'))
        shutil.copy(d, os.path.join(dst, 'demo.py'))
        out.append(f'{pid}-{n}')
        n += 1
print(' '.join(out))
