"""regenerates the table of DESIGN.md §7.3 from evidence/*.json (which only ever hold runs of /verif against /repo)"""
import json, os, re
V = os.path.dirname(os.path.dirname(os.path.abspath(__file__)))
rows = []
for pid in json.load(open(os.path.join(V, 'CLAIMED.json'))):
    e = json.load(open(os.path.join(V, 'evidence', pid + '.json')))
    c = e['coverage']
    assert e['tier'] == 'quick', (pid, e['tier'])
    rows.append(f"| {pid} | {c['jobs']} | {c['paths']} | {c['obligations']} | {c['discharged']} | {c['refuted_on_model']} | "
                f"{c['inconclusive']} | {c['solver_queries']} | {round(e['wall_s'])} |")
p = os.path.join(V, 'DESIGN.md')
s = open(p).read()
m = re.search(r'(\| id \| jobs \| paths .*?\n\|---.*?\n)((?:\| C\d\d .*\n)+)', s)
s = s[:m.start(2)] + '\n'.join(rows) + '\n' + s[m.end(2):]
open(p, 'w').write(s)
print(len(rows), 'rows')
