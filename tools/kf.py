"""tools/kf.py add <property> <status> <commit> <harness> <label> '<sig json>' '<what>'"""
import json, sys
p = '/verif/known_findings.json'
k = json.load(open(p))
_, cmd, prop, status, commit, harness, label, sig, what = sys.argv
e = {'property': prop, 'status': status, 'commit': commit, 'harness': harness, 'label': label, 'sig': json.loads(sig),
     'what': what}
if status == 'fixed':
    e['record'] = f'fixed: property={prop} {commit} {what}'
else:
    e.pop('commit')
k['findings'].append(e)
json.dump(k, open(p, 'w'), indent=1)
print('added', e['what'][:100])
