#!/bin/bash
# tools/seedall.sh [procs] — runs every seed of seeded/ against the check of its property (quick tier); summary in /tmp/seedall.txt
procs=${1:-8}; cd /verif; rm -f /tmp/seedall.txt
for d in $(ls seeded | grep -E '^C[0-9]+-[0-9]+$'); do p=${d%-*}; r=$(tools/seedtest.sh $p seeded/$d/patch.diff quick --procs $procs 2>&1 | tail -1); echo "$r" >> /tmp/seedall.txt; done
echo DONE >> /tmp/seedall.txt
