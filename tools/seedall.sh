#!/bin/bash
# tools/seedall.sh [procs per run] [parallel runs] — runs every seed of seeded/ against the check of its property (quick tier);
# summary in /tmp/seedall.txt
procs=${1:-8}; par=${2:-1}; cd /verif; rm -f /tmp/seedall.txt
ls seeded | grep -E '^C[0-9]+-[0-9]+$' | xargs -P $par -I{} sh -c 'd={}; p=${d%-*}; r=$(tools/seedtest.sh $p seeded/$d/patch.diff quick --procs '$procs' 2>&1 | tail -1); echo "$r" >> /tmp/seedall.txt'
sort -o /tmp/seedall.txt /tmp/seedall.txt
echo DONE >> /tmp/seedall.txt
