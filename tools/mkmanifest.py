"""regenerates MANIFEST.json from the props modules that exist (claimed) and NA.json (not applicable)"""
import importlib
import json
import os
import sys

V = os.path.dirname(os.path.dirname(os.path.abspath(__file__)))
sys.path[:0] = [V, '/repo/src']
import logging
logging.disable(logging.CRITICAL)

props = [json.loads(l) for l in open(os.path.join(V, 'properties.jsonl'))]
na = json.load(open(os.path.join(V, 'NA.json')))
claimed = json.load(open(os.path.join(V, 'CLAIMED.json')))
checks, not_app, served = [], [], []
for p in props:
    pid = p['id']
    path = os.path.join(V, 'props', pid.lower() + '.py')
    if pid in na and not os.path.exists(path):
        not_app.append({'property_id': pid, 'reason': na[pid]})
        continue
    if not os.path.exists(path) or pid not in claimed:
        not_app.append({'property_id': pid, 'reason': 'check not built yet in this round (planned, see DESIGN.md §3); nothing is claimed'})
        continue
    mod = importlib.import_module('props.' + pid.lower())
    meta = mod.META
    served.append(pid)
    checks.append({
        'property_id': pid,
        'quick_cmd': f'./vcheck {pid} --tier quick',
        'thorough_cmd': f'./vcheck {pid} --tier thorough',
        'evidence_file': f'evidence/{pid}.json',
        'replay_cmd_template': './vcheck replay {path}',
        'engine': 'symex',
        'level_claimed': {'category': meta.get('level', 'other'),
                          'text': meta.get('level_text', meta['explanation']),
                          'design_ref': f'DESIGN.md §3 {pid}'},
        'level_note': meta.get('level_note', 'bounded: ' + json.dumps(meta.get('bounds', {}).get('quick', {})) +
                               '; stubs: ' + '; '.join(meta.get('stubs', [])) + '; outside: ' + '; '.join(meta.get('outside', []))),
        'technique': meta.get('technique', 'solver-based: symbolic execution of the real code on z3 proxies'),
    })
m = {
    'version': 1,
    'setup_cmd': './setup.sh',
    'hooks': {'guard': 'AIOSLSK_VERIF',
              'enable': 'no hooks: checks inject their stubs into module globals at run time; nothing in /repo is instrumented',
              'baseline_off_cmd': 'cd /repo && /venv/bin/python -m pytest -ra -q -p no:cacheprovider --timeout=900',
              'source_commits': [], 'add_only': True},
    'engines': [{'name': 'symex', 'path': 'engine/symex.py', 'serves_properties': served,
                 'kind_free_text': 'native execution of the real aioslsk functions on z3-backed proxy values; DFS path exploration by '
                                   're-execution; branch feasibility and obligations decided by z3 5.1; counterexample models replayed '
                                   'concretely on the unstubbed code before anything is reported'}],
    'checks': checks,
    'notes': 'exit 0 = held on everything explored; 1 = VIOLATION (replayed concretely); 3 = harness error / nothing discharged (never a verdict). See DESIGN.md.',
    'not_applicable': not_app,
}
json.dump(m, open(os.path.join(V, 'MANIFEST.json'), 'w'), indent=1)
import jsonschema
jsonschema.validate(m, json.load(open('/root/.vp/MANIFEST.schema.json')))
print('manifest ok: claimed', served, 'not applicable', [x['property_id'] for x in not_app])
