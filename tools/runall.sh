#!/bin/bash
# tools/runall.sh [quick|thorough] [procs] — every claimed check in sequence, one summary line each
tier=${1:-quick}; procs=${2:-10}
cd /verif
for p in $(python3 -c "import json;print(' '.join(json.load(open('CLAIMED.json'))))"); do
  s=$(date +%s); ./vcheck $p --tier $tier --procs $procs > /tmp/run_${tier}_$p.log 2>&1; rc=$?
  echo "$p rc=$rc wall=$(( $(date +%s)-s ))s known=$(grep -c '^KNOWN' /tmp/run_${tier}_$p.log) $(tail -1 /tmp/run_${tier}_$p.log | cut -c1-190)"
done
