"""regenerates the findings tables of DESIGN.md (between the markers) from known_findings.json and /repo's git log"""
import json, subprocess, re, os
V = os.path.dirname(os.path.dirname(os.path.abspath(__file__)))
k = json.load(open(os.path.join(V, 'known_findings.json')))['findings']
subj = {}
for line in subprocess.check_output(['git', '-C', '/repo', 'log', '--format=%h %s']).decode().splitlines():
    h, s = line.split(' ', 1)
    subj[h] = s
rows_f, rows_k = [], []
for e in k:
    if e.get('status') == 'fixed':
        c = e.get('commit', '?')
        rows_f.append(f"| {e['property']} | `{e['label']}` | {e['what']} | {c} {subj.get(c, '')} |")
    else:
        rows_k.append(f"| {e['property']} | `{e['label']}` | `{json.dumps(e.get('sig'))}` | {e['what']} |")
md = ('| property | label that saw it | what failed | fix commit in /repo |\n|---|---|---|---|\n' + '\n'.join(rows_f) +
      '\n\n**Known findings (not repaired: design decisions)**\n\n| property | label | signature pattern | what fails |\n|---|---|---|---|\n' + '\n'.join(rows_k) + '\n')
p = os.path.join(V, 'DESIGN.md')
s = open(p).read()
a, b = '<!-- FINDINGS:BEGIN -->', '<!-- FINDINGS:END -->'
s = s[:s.index(a) + len(a)] + '\n' + md + s[s.index(b):]
open(p, 'w').write(s)
print(len(rows_f), 'fixed,', len(rows_k), 'known')
