"""tools/seedmeta.py <name> <property> <caught yes|no> '<summary>' '<needs>' '<caught_by / why missed>'"""
import json, sys, os
_, name, prop, caught, summary, needs, by = sys.argv
r = open(f'/tmp/confirm/{name}.result').read().strip() if os.path.exists(f'/tmp/confirm/{name}.result') else 'not confirmed'
m = {'property': prop, 'summary': summary, 'needs': needs, 'detected': caught == 'yes', 'detected_by_or_why_missed': by, 'confirmed': r,
     'ran': [f'tools/confirm_seed.sh {name} seeded/{name}/patch.diff seeded/{name}/demo.py (scratch worktree of /repo HEAD: demo passes on base, fails with the change; full unedited suite passes with the change)',
             f'tools/seedtest.sh {prop} seeded/{name}/patch.diff -> ' + ('exit 1 (VIOLATION, replay reproduced)' if caught == 'yes' else 'exit 0 (missed)')]}
json.dump(m, open(f'/verif/seeded/{name}/meta.json', 'w'), indent=1)
print('meta', name)
