#!/bin/bash
# tools/seedtest.sh <property id> <patch file> [tier] [extra vcheck args...]
# runs the check against a scratch worktree of /repo HEAD with the seeded change applied (VERIF_REPO_SRC, development
# override) so that /repo itself is never dirty while other runs use it.  Equivalent to: git -C /repo apply <patch>;
# ./vcheck <id>; git -C /repo checkout -- .
id=$1; patch=$(readlink -f $2); tier=${3:-quick}; shift; shift; shift
name=$(basename $(dirname $patch))
wt=/tmp/seedrun/$name; mkdir -p /tmp/seedrun; rm -rf $wt; git -C /repo worktree prune
ok=0; for try in 1 2 3 4 5; do git -C /repo worktree add --detach $wt HEAD >/dev/null 2>&1 && { ok=1; break; }; sleep $try; rm -rf $wt; git -C /repo worktree prune; done
[ $ok = 1 ] || { echo "worktree failed"; exit 9; }
cd $wt
if ! git apply "$patch" 2>/dev/null; then
  patch -p1 -F3 -s < "$patch" || { echo "patch does not apply"; cd /; git -C /repo worktree remove --force $wt; exit 9; }
fi
cd /verif && VERIF_REPO_SRC=$wt/src timeout ${SEED_TIMEOUT:-1500} ./vcheck $id --tier $tier "$@" > /tmp/seedtest_$name.log 2>&1; rc=$?
grep -E "^(VIOLATION|KNOWN|HARNESS|property=)" /tmp/seedtest_$name.log | cut -c1-300 | head -8
git -C /repo worktree remove --force $wt
echo "seedtest $id $name: exit=$rc violations=$(grep -c '^VIOLATION' /tmp/seedtest_$name.log) harness_errors=$(grep -c '^HARNESS' /tmp/seedtest_$name.log)"
