#!/bin/bash
# tools/seedtest.sh <property id> <patch file> [tier]   — applies a seeded change to /repo, runs the check, reverts
id=$1; patch=$(readlink -f $2); tier=${3:-quick}
cd /repo || exit 9
[ -z "$(git status --porcelain -- src)" ] || { echo "repo/src dirty"; exit 9; }
if ! git apply "$patch" 2>/dev/null; then
  patch -p1 -F3 -s < "$patch" || { echo "patch does not apply"; git checkout -- .; git clean -fdq src; exit 9; }
  find . -name '*.orig' -delete
fi
cd /verif && ./vcheck $id --tier $tier > /tmp/seedtest_$id.log 2>&1; rc=$?
grep -E "^(VIOLATION|KNOWN|HARNESS|property=)" /tmp/seedtest_$id.log | cut -c1-300 | head -12
cd /repo && git checkout -- . && git status --porcelain -- src
echo "seedtest $id $(basename $patch): exit=$rc"
