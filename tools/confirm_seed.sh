#!/bin/bash
# tools/confirm_seed.sh <name> <patch> <demo> — confirms a seeded change in a scratch worktree of /repo HEAD:
# suite passes with the change, demo fails with it and passes without it.  Writes /tmp/confirm/<name>.result
name=$1; patch=$(readlink -f $2); demo=$(readlink -f $3)
wt=/tmp/confirm/wt_$name; mkdir -p /tmp/confirm; rm -rf $wt
git -C /repo worktree add --detach $wt HEAD >/dev/null 2>&1 || { echo "worktree failed"; exit 9; }
cd $wt
run_demo() { if grep -q "def test_" $demo; then PYTHONPATH=$wt/src /venv/bin/python -m pytest -q -p no:cacheprovider -x $demo >/tmp/confirm/$name.demo_$1.log 2>&1; else PYTHONPATH=$wt/src /venv/bin/python $demo >/tmp/confirm/$name.demo_$1.log 2>&1; fi; echo $?; }
base_demo=$(run_demo base)
if ! git apply $patch 2>/dev/null; then patch -p1 -F3 -s < $patch || { echo "$name: PATCH DOES NOT APPLY" > /tmp/confirm/$name.result; cd /; git -C /repo worktree remove --force $wt; exit 1; }; find . -name '*.orig' -delete; fi
git diff -- src > /tmp/confirm/$name.rebased.diff
seed_demo=$(run_demo seeded)
suite=$(unshare -n sh -c "ip link set lo up; cd $wt && PYTHONPATH=$wt/src /venv/bin/python -m pytest -q -p no:cacheprovider --timeout=900 2>&1 | tail -1")
echo "$name: demo_on_base_exit=$base_demo demo_with_change_exit=$seed_demo suite_with_change='$suite'" > /tmp/confirm/$name.result
cd /; git -C /repo worktree remove --force $wt
cat /tmp/confirm/$name.result
