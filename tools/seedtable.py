"""writes seeded/<name>/meta.json and seeded/TABLE.md from tools/seeds_info.json, tools/seeds_result.json and /tmp/confirm results"""
import json, os
V = os.path.dirname(os.path.dirname(os.path.abspath(__file__)))
info = json.load(open(os.path.join(V, 'tools/seeds_info.json')))
res = json.load(open(os.path.join(V, 'tools/seeds_result.json')))
rows = []
for name in sorted(info):
    prop, summary, needs = info[name]
    r = res.get(name, {'detected': None, 'by': 'not run yet'})
    mp = os.path.join(V, 'seeded', name, 'meta.json')
    old = json.load(open(mp)) if os.path.exists(mp) else {}
    cf = f'/tmp/confirm/{name}.result'
    confirmed = open(cf).read().strip() if os.path.exists(cf) else old.get('confirmed', 'see earlier run')
    m = {'property': prop, 'summary': summary, 'needs': needs, 'detected': r['detected'], 'detected_by_or_why_missed': r['by'],
         'confirmed': confirmed,
         'ran': [f'tools/confirm_seed.sh {name} seeded/{name}/patch.diff seeded/{name}/demo.py  (scratch worktree of /repo HEAD: demo exit on base / with change; full unedited suite with the change)',
                 f'tools/seedtest.sh {prop} seeded/{name}/patch.diff  (scratch worktree + VERIF_REPO_SRC; same as git -C /repo apply; ./vcheck {prop}; git -C /repo checkout -- .)']}
    json.dump(m, open(mp, 'w'), indent=1)
    rows.append(f"| {name} | {summary} | {needs} | {'**caught**' if r['detected'] else ('pending' if r['detected'] is None else 'missed')} | {r['by']} |")
open(os.path.join(V, 'seeded/TABLE.md'), 'w').write('# Seeded changes and the checks that catch them\n\n| seed | change | needs | result | obligation(s) that fire / why missed |\n|---|---|---|---|---|\n' + '\n'.join(rows) + '\n')
print(len(rows), 'seeds')
