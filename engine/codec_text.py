"""codec_text: text codecs for the byte proxies of engine/codec.py.

`SBytes.decode(encoding, errors)`, `SStr.encode(encoding, errors)` and the comparison of texts that were
decoded with different codecs are delegated to this module when the bytes are symbolic (concrete bytes always
go through CPython itself).  A text is represented by the bytes it was decoded from: SStr(raw, enc, errors)
stands for raw.decode(enc, errors).

Modelled exactly (CPython 3.12 semantics, validated by validate() against CPython at the start of every run):
* utf-8       strict well-formedness formula (engine.codec.utf8_wellformed)
* utf-8-sig   decode: ONE leading EF BB BF is dropped, the rest is utf-8; encode: EF BB BF is prepended
* ascii       decode: every byte < 0x80 (else UnicodeDecodeError); an ascii text is carried as utf-8 text
* every stateless, ASCII-compatible, injective single-byte charmap codec CPython knows (latin-1/iso-8859-x,
  cp1252, cp125x, cp437, koi8-r, ...): its table is read off CPython at first use and checked on all 65536
  byte pairs; decode raises on undefined bytes; encode/compare go through the table
* errors = 'strict' | 'ignore' | 'replace': on input that is valid for the codec all three behave alike
  (decided by the solver, forks when both are feasible).  On invalid input 'ignore'/'replace' give a *lazy*
  text SStr(raw, enc, errors): it is carried, realised through CPython in models/replays, but comparing or
  re-encoding it symbolically is not modelled (HarnessError naming the codec).  Encoding to ascii / a charmap
  supports 'ignore' and 'replace' ('?') exactly.
Anything else (utf-16, multi-byte charsets, other error handlers) raises a HarnessError that names it; an
unknown codec name raises LookupError exactly like CPython.
"""
from __future__ import annotations

import codecs

import z3

from engine import symex
from engine import codec as K
from engine.codec import SBytes, SStr, HarnessError

BOM = (0xEF, 0xBB, 0xBF)
MAX_RECODE = 16          # byte length up to which symbolic non-ASCII text is re-encoded (forks per character); longer: BoundHit
MODELLED = "utf-8, utf-8-sig, ascii and stateless ASCII-compatible single-byte charmaps (latin-1, cp1252, ...)"


def canon(encoding) -> str:
    """CPython's canonical codec name ('latin-1' -> 'iso8859-1', 'utf8' -> 'utf-8'); LookupError like CPython"""
    if not isinstance(encoding, str):
        raise TypeError(f'decode() argument \'encoding\' must be str, not {type(encoding).__name__}')
    return codecs.lookup(encoding).name


def _check_errors(errors):
    if errors in ('strict', 'ignore', 'replace'):
        return
    codecs.lookup_error(errors)      # LookupError for an unknown handler, like CPython
    raise HarnessError(f"text codec error handler errors={errors!r} is not modelled (strict, ignore, replace are)")


# ------------------------------------------------------------------------------
# single-byte charmaps, read off CPython
# ------------------------------------------------------------------------------

_CHARMAPS: dict = {}


def charmap(name):
    """{byte: utf-8 bytes of the character it decodes to} for a stateless ASCII-compatible injective single-byte
    codec (bytes missing from the dict are undefined), or None when `name` is not such a codec"""
    if name in _CHARMAPS:
        return _CHARMAPS[name]
    tbl = None
    if name not in ('utf-8', 'utf-8-sig', 'ascii'):
        try:
            tbl = _read_charmap(name)
        except Exception:  # noqa
            tbl = None
    _CHARMAPS[name] = tbl
    return tbl


def _read_charmap(name):
    chars = {}
    for v in range(256):
        try:
            ch = bytes([v]).decode(name)
        except UnicodeDecodeError:
            continue
        if len(ch) != 1:
            return None
        chars[v] = ch
    if any(chars.get(v) != chr(v) for v in range(128)):
        return None                                   # not ASCII compatible (EBCDIC, ...)
    if any(ord(ch) < 128 for v, ch in chars.items() if v >= 128) or len(set(chars.values())) != len(chars):
        return None
    if any(ch.encode(name) != bytes([v]) for v, ch in chars.items()):
        return None
    for a in range(256):                              # stateless: every pair decodes to the two single characters
        for b in range(256):
            want = chars[a] + chars[b] if a in chars and b in chars else None
            try:
                got = bytes([a, b]).decode(name)
            except UnicodeDecodeError:
                got = None
            if got != want:
                return None
    return {v: ch.encode('utf-8') for v, ch in chars.items()}


def _unmodelled(name, what):
    return HarnessError(f"text codec {name!r} is not modelled ({what}); engine/codec_text.py models {MODELLED}")


def _ascii_all(terms):
    return K._and(*[K._rng(t, 0x00, 0x7F) for t in terms])


def _defined_all(terms, tbl):
    undefined = [v for v in range(128, 256) if v not in tbl]
    if not undefined:
        return True
    return K._and(*[K._not(K._or(*[K._teq(t, u) for u in undefined])) for t in terms])


# ------------------------------------------------------------------------------
# decode
# ------------------------------------------------------------------------------

def decode(sb: SBytes, encoding='utf-8', errors='strict'):
    """SBytes.decode for a buffer with symbolic bytes"""
    name = canon(encoding)
    _check_errors(errors)
    b = list(sb.b)
    if name == 'utf-8-sig':
        if len(b) >= 3 and K._sym_truth(K._and(*[K._teq(t, v) for t, v in zip(b, BOM)])):
            b = b[3:]                                  # exactly one signature is dropped
        name = 'utf-8'
        if all(isinstance(t, int) for t in b):
            return bytes(b).decode('utf-8', errors)
    if name == 'utf-8':
        valid, carried, reason = K.utf8_wellformed(b), 'utf-8', 'invalid start byte'
    elif name == 'ascii':
        valid, carried, reason = _ascii_all(b), 'utf-8', 'ordinal not in range(128)'
    else:
        tbl = charmap(name)
        if tbl is None:
            raise _unmodelled(name, 'decode of symbolic bytes')
        valid, carried, reason = _defined_all(b, tbl), name, 'character maps to <undefined>'
    if K._sym_truth(valid):
        return SStr(SBytes(b), carried)
    if errors == 'strict':
        raise UnicodeDecodeError(name, b'\xff', 0, 1, reason + ' (symbolic buffer)')
    return SStr(SBytes(b), name, errors)               # lazy: stands for bytes.decode(name, errors) of invalid input


# ------------------------------------------------------------------------------
# encode
# ------------------------------------------------------------------------------

_TEMPLATES: dict = {}


def _inverse(name, k, tbl):
    """template over k placeholder bytes: (z3 Bool 'these k utf-8 bytes are a character of the codec', BV8 its byte)"""
    key = ('inv', name, k)
    if key not in _TEMPLATES:
        ps = [z3.BitVec(f'_ct_{name}_{k}_{i}', 8) for i in range(k)]
        ok, out = [], z3.BitVecVal(0, 8)
        for v, enc in sorted(tbl.items()):
            if v >= 128 and len(enc) == k:
                m = z3.And(*[p == e for p, e in zip(ps, enc)])
                ok.append(m)
                out = z3.If(m, z3.BitVecVal(v, 8), out)
        _TEMPLATES[key] = (ps, z3.Or(*ok) if ok else False, out)
    return _TEMPLATES[key]


def _subst(ps, f, terms):
    if isinstance(f, bool):
        return f
    return z3.substitute(f, *[(p, K._bv8(t)) for p, t in zip(ps, terms)])


def _utf8_to_single(terms, name, tbl, errors):
    """well-formed utf-8 byte terms -> byte terms in a single-byte codec (tbl = {} for ascii); forks per character"""
    if len(terms) > MAX_RECODE:
        # the result length depends on every character: cut this path (counted as a bound hit), keep exploring the others
        raise symex.BoundHit(f'symbolic non-ASCII utf-8 text longer than {MAX_RECODE} bytes re-encoded as {name}')
    out, i, n = [], 0, len(terms)
    while i < n:
        t = terms[i]
        if K._sym_truth(K._rng(t, 0x00, 0x7F)):
            k = 1
        elif K._sym_truth(K._rng(t, 0xC2, 0xDF)):
            k = 2
        elif K._sym_truth(K._rng(t, 0xE0, 0xEF)):
            k = 3
        else:
            k = 4
        if k == 1:
            out.append(t)
        else:
            ps, ok, o = _inverse(name, k, tbl)
            if K._sym_truth(_subst(ps, ok, terms[i:i + k])):
                out.append(K._norm(_subst(ps, o, terms[i:i + k])))
            elif errors == 'strict':
                raise UnicodeEncodeError(name, '€', 0, 1, ('ordinal not in range(128)' if name == 'ascii' else
                                                                'character maps to <undefined>') + ' (symbolic text)')
            elif errors == 'replace':
                out.append(0x3F)
        i += k
    return out


def _forward(name, tbl):
    """template over one placeholder byte: {k: (z3 Bool 'this high byte decodes to a character of k utf-8 bytes', [BV8 byte j])}"""
    key = ('fwd', name)
    if key not in _TEMPLATES:
        p = z3.BitVec(f'_cf_{name}', 8)
        groups = {}
        for v, enc in sorted(tbl.items()):
            if v >= 128:
                groups.setdefault(len(enc), []).append((v, enc))
        out = {}
        for k, g in groups.items():
            bs = []
            for j in range(k):
                e = z3.BitVecVal(0, 8)
                for v, enc in g:
                    e = z3.If(p == v, z3.BitVecVal(enc[j], 8), e)
                bs.append(e)
            out[k] = (z3.Or(*[p == v for v, _ in g]), bs)
        _TEMPLATES[key] = (p, out)
    return _TEMPLATES[key]


def _single_to_utf8(terms, name, tbl):
    """byte terms of a strictly decoded single-byte text -> its utf-8 byte terms; forks on the utf-8 length per byte"""
    if len(terms) > MAX_RECODE:
        raise symex.BoundHit(f'symbolic non-ASCII {name} text longer than {MAX_RECODE} bytes re-encoded as utf-8')
    p, groups = _forward(name, tbl)
    out = []
    for t in terms:
        if isinstance(t, int):
            out.extend(tbl[t])
            continue
        if K._sym_truth(K._rng(t, 0x00, 0x7F)):
            out.append(t)
            continue
        ks = sorted(groups)
        for idx, k in enumerate(ks):
            cond, bs = groups[k]
            if idx == len(ks) - 1 or K._sym_truth(z3.substitute(cond, (p, t))):
                out.extend(K._norm(z3.substitute(e, (p, t))) for e in bs)
                break
    return out


def encode(s: SStr, encoding='utf-8', errors='strict') -> SBytes:
    """SStr.encode for a text with symbolic bytes"""
    name, src = canon(encoding), canon(s.enc)
    _check_errors(errors)
    c = s.raw.concrete()
    if c is not None:
        return SBytes(list(c.decode(s.enc, s.errors).encode(encoding, errors)))
    if s.errors != 'strict':
        raise _unmodelled(src, f'text decoded with errors={s.errors!r} from invalid symbolic input is re-encoded')
    terms = list(s.raw.b)
    if src == 'utf-8':
        if name == 'utf-8':
            return SBytes(terms)
        if name == 'utf-8-sig':
            return SBytes(list(BOM) + terms)
        tbl = {} if name == 'ascii' else charmap(name)
        if tbl is None:
            raise _unmodelled(name, 'encode of symbolic text')
        if K._sym_truth(_ascii_all(terms)):
            return SBytes(terms)
        return SBytes(_utf8_to_single(terms, name, tbl, errors))
    stbl = charmap(src)
    if stbl is None:
        raise _unmodelled(src, 'source codec of a symbolic text')
    if name == src:
        return SBytes(terms)
    if name in ('utf-8', 'utf-8-sig'):
        body = terms if K._sym_truth(_ascii_all(terms)) else _single_to_utf8(terms, src, stbl)
        return SBytes((list(BOM) if name == 'utf-8-sig' else []) + body)
    if name == 'ascii' or charmap(name) is not None:
        if K._sym_truth(_ascii_all(terms)):
            return SBytes(terms)
        # via utf-8 (exact: both steps are)
        return SBytes(_utf8_to_single(_single_to_utf8(terms, src, stbl), name, {} if name == 'ascii' else charmap(name), errors))
    raise _unmodelled(name, 'encode of symbolic text')


# ------------------------------------------------------------------------------
# equality of texts carried in different codecs
# ------------------------------------------------------------------------------

def _utf8_eq_single(a, b, tbl):
    """exact text equality of well-formed utf-8 bytes `a` and single-byte-codec bytes `b` (all defined)"""
    n, m = len(a), len(b)
    if m > n:
        return False
    if n == m:
        # equal texts have equal character counts, so `a` has no continuation byte: both ASCII and bytewise equal
        return K._and(*[K._and(K._rng(y, 0, 0x7F), K._teq(x, y)) for x, y in zip(a, b)])
    if n * m > 900:
        # cut this path (counted as a bound hit); the other paths of the job go on
        raise symex.BoundHit('comparison of long symbolic texts carried in different codecs (DP over %d x %d bytes)' % (n, m))
    high = [(v, enc) for v, enc in sorted(tbl.items()) if v >= 128]
    match = {}
    for j in range(m, -1, -1):
        for i in range(n, -1, -1):
            if j == m or i == n:
                match[i, j] = (i == n and j == m)
                continue
            alts = [K._and(K._rng(b[j], 0, 0x7F), K._teq(a[i], b[j]), match.get((i + 1, j + 1), False))]
            for v, enc in high:
                k = len(enc)
                if i + k <= n and match.get((i + k, j + 1), False) is not False:
                    alts.append(K._and(K._teq(b[j], v), *[K._teq(a[i + d], enc[d]) for d in range(k)], match[i + k, j + 1]))
            match[i, j] = K._or(*alts)
    return match[0, 0]


def _single_eq_single(a, ta, b, tb):
    if len(a) != len(b):
        return False
    inv_b = {enc: v for v, enc in tb.items() if v >= 128}
    pairs = [(v, inv_b[enc]) for v, enc in sorted(ta.items()) if v >= 128 and enc in inv_b]
    same = all(x == y for x, y in pairs) and len(pairs) == len([v for v in ta if v >= 128]) == len(inv_b)
    out = []
    for x, y in zip(a, b):
        if same:
            out.append(K._teq(x, y))
        else:
            out.append(K._or(K._and(K._rng(x, 0, 0x7F), K._teq(x, y)), *[K._and(K._teq(x, v), K._teq(y, w)) for v, w in pairs]))
    return K._and(*out)


def text_eq(s: SStr, o: SStr):
    """python bool / z3 Bool: the two texts are equal (any combination of codecs they are carried in)"""
    a, b = s.raw.concrete(), o.raw.concrete()
    if a is not None and b is not None:
        return a.decode(s.enc, s.errors) == b.decode(o.enc, o.errors)
    if s.errors != 'strict' or o.errors != 'strict':
        if canon(s.enc) == canon(o.enc) and s.errors == o.errors and s.raw.eq_formula(o.raw) is True:
            return True
        lossy = s if s.errors != 'strict' else o
        raise _unmodelled(lossy.enc, f'comparison of a text decoded with errors={lossy.errors!r} from invalid symbolic input')
    es, eo = canon(s.enc), canon(o.enc)
    if es == eo:
        return s.raw.eq_formula(o.raw)
    if es == 'utf-8' or eo == 'utf-8':
        u, x = (s, o) if es == 'utf-8' else (o, s)
        tbl = charmap(canon(x.enc))
        if tbl is None:
            raise _unmodelled(x.enc, 'comparison of symbolic texts')
        return _utf8_eq_single(u.raw.b, x.raw.b, tbl)
    ta, tb = charmap(es), charmap(eo)
    if ta is None or tb is None:
        raise _unmodelled(es if ta is None else eo, 'comparison of symbolic texts')
    return _single_eq_single(s.raw.b, ta, o.raw.b, tb)


# ------------------------------------------------------------------------------
# validation against CPython (prelude)
# ------------------------------------------------------------------------------

_EDGE = (0x00, 0x41, 0x7F, 0x80, 0x81, 0x9F, 0xA0, 0xBB, 0xBF, 0xC2, 0xC3, 0xE2, 0xEF, 0xF0, 0xFF)
_POOL = [b'', b'A', b'\x80', b'\xe9', b'\xef', b'\xef\xbb', b'\xef\xbb\xbf', b'\xef\xbb\xbfA', b'\xef\xbb\xbf\xef\xbb\xbf', b'A\xef\xbb\xbf',
         b'\xef\xbb\xbf\xe9', b'\xc3\xa9', b'\xc3\xa9A', b'A\xc3\xa9', b'\xe2\x82\xac', b'\xe2\x82\xacA', b'\xf0\x9f\x98\x80', b'AB', b'ABC', b'ABCD',
         b'\x81', b'A\x81', b'\x81A', b'\x80A', b'\xc2\x80', b'\xc2\x9f', b'\xc5\xa0', b'\xff', b'\xc3', b'\xe2\x82', b'A\xff', b'\xa0\xff',
         b'\xef\xbb\xbf\xc3\xa9', b'\xef\xbb\xbf\xff', b'\xef\xbb\xbe', b'\xc3\xa9\xc3\xa9', b'\xc3\xbf', b'\xc4\x80', b'A\x80B', b'\x9f\x80']


_TEXTS = ['', 'A', 'é', '€', 'Š', 'ÿ', 'AB', 'Aé', 'éA', '\x80', '\xa0', '\ufeff', '\ufeffA', 'A\ufeff', 'é€']


def _witness_inputs(c, terms, n_extra=1):
    """concrete byte strings satisfying the current path condition: every pool entry of that length that does, plus a solver model"""
    out = []
    for cand in _POOL:
        if len(cand) == len(terms) and c._check(*[t == v for t, v in zip(terms, cand)]) == 'sat':
            out.append((cand, c._last_model))
    if c._check() == 'sat':
        m = c._last_model
        out.append((bytes(m.eval(t, model_completion=True).as_long() for t in terms), m))
    return out


def _real(fn):
    try:
        return ('ok', fn())
    except UnicodeError as e:
        return ('err', type(e).__name__)


def validate(deep=False):
    """every modelled codec operation on symbolic bytes, explored path by path; on each path the result is compared
    with CPython for every pool input the path admits and for one solver model.  Raises HarnessError on a mismatch."""
    stats = {'paths': 0, 'cases': 0}
    problems = []

    def h_decode(c, n, enc, errors):
        terms = [c.fresh_bv(f'b{i}', 8) for i in range(n)]
        try:
            got = ('ok', SBytes(terms).decode(enc, errors))
        except UnicodeError as e:
            got = ('err', type(e).__name__)
        stats['paths'] += 1
        for data, model in _witness_inputs(c, terms):
            stats['cases'] += 1
            want = _real(lambda: data.decode(enc, errors))
            have = (got[0], K.evaluate(model, got[1]) if got[0] == 'ok' else got[1])
            if want != have:
                problems.append(f'decode {data!r} {enc} {errors}: CPython {want!r} model {have!r}')

    def h_recode(c, n, src, dst, errors):
        """decode symbolic bytes with src (strict), then encode with dst; and compare with the utf-8 reading of the same bytes"""
        terms = [c.fresh_bv(f'b{i}', 8) for i in range(n)]
        try:
            txt = SBytes(terms).decode(src)
        except UnicodeError:
            return
        try:
            got = ('ok', txt.encode(dst, errors))
        except UnicodeError as e:
            got = ('err', type(e).__name__)
        stats['paths'] += 1
        for data, model in _witness_inputs(c, terms):
            stats['cases'] += 1
            want = _real(lambda: data.decode(src).encode(dst, errors))
            have = (got[0], K.evaluate(model, got[1]) if got[0] == 'ok' else got[1])
            if want != have:
                problems.append(f'recode {data!r} {src}->{dst} {errors}: CPython {want!r} model {have!r}')

    def h_eq(c, n, m, e1, e2):
        t1 = [c.fresh_bv(f'a{i}', 8) for i in range(n)]
        t2 = [c.fresh_bv(f'b{i}', 8) for i in range(m)]
        try:
            x, y = SBytes(t1).decode(e1), SBytes(t2).decode(e2)
        except UnicodeError:
            return
        f = text_eq(x, y) if isinstance(x, SStr) and isinstance(y, SStr) else (x == y)
        stats['paths'] += 1
        for want in (True, False):
            cond = (f if want else K._not(f))
            if isinstance(cond, bool):
                if not cond:
                    continue
                r = c._check()
            else:
                r = c._check(cond)
            if r != 'sat':
                continue
            mo = c._last_model
            d1 = bytes(mo.eval(t, model_completion=True).as_long() for t in t1)
            d2 = bytes(mo.eval(t, model_completion=True).as_long() for t in t2)
            stats['cases'] += 1
            if (d1.decode(e1) == d2.decode(e2)) is not want:
                problems.append(f'text_eq {d1!r}/{e1} vs {d2!r}/{e2}: formula says {want}')
        # directed: every pair of pool texts that fits these lengths and this path (equal texts in particular)
        for x1 in _TEXTS:
            for x2 in _TEXTS:
                try:
                    d1, d2 = x1.encode(e1), x2.encode(e2)
                except UnicodeError:
                    continue
                if e1 == 'utf-8-sig':
                    d1 = d1[3:] if len(d1) - 3 == n else d1       # both the bare and the signed spelling
                if len(d1) != n or len(d2) != m:
                    continue
                if c._check(*[t == v for t, v in zip(t1 + t2, d1 + d2)]) != 'sat':
                    continue
                val = f if isinstance(f, bool) else bool(z3.is_true(c._last_model.eval(f, model_completion=True)))
                stats['cases'] += 1
                if val is not (d1.decode(e1) == d2.decode(e2)):
                    problems.append(f'text_eq {d1!r}/{e1} vs {d2!r}/{e2}: formula says {val}')

    def run(fn, **params):
        ex = symex.Explorer(fn, params, 'codec_text.validate', max_paths=4000, timeout_s=60)
        ex.run()
        if not ex.exhausted:
            raise HarnessError(f'codec_text.validate: exploration of {params} not exhausted')

    for enc in ('utf-8', 'utf-8-sig', 'ascii', 'latin-1', 'iso-8859-1', 'cp1252'):
        for errors in ('strict', 'ignore', 'replace'):
            for n in (0, 1, 2, 3, 4, 6):
                if n == 6 and (enc != 'utf-8-sig' or errors != 'strict'):
                    continue
                run(h_decode, n=n, enc=enc, errors=errors)
    for src, dst in (('utf-8', 'utf-8-sig'), ('utf-8', 'latin-1'), ('utf-8', 'cp1252'), ('utf-8', 'ascii'), ('cp1252', 'utf-8'),
                     ('latin-1', 'utf-8'), ('latin-1', 'utf-8-sig'), ('cp1252', 'latin-1'), ('utf-8-sig', 'utf-8-sig')):
        for errors in (('strict', 'ignore', 'replace') if dst in ('latin-1', 'cp1252', 'ascii') else ('strict',)):
            for n in (1, 2, 3):
                # the quick matrix keeps every codec pair, 3-byte characters once, and one lossy handler per target
                if deep or (errors == 'strict' and (n < 3 or (src, dst) == ('utf-8', 'cp1252'))) or \
                        (n == 2 and (src, dst, errors) in (('utf-8', 'latin-1', 'replace'), ('utf-8', 'ascii', 'ignore'), ('utf-8', 'cp1252', 'ignore'))):
                    run(h_recode, n=n, src=src, dst=dst, errors=errors)
    for e1, e2, sizes in (('utf-8', 'cp1252', ((1, 1), (2, 1), (3, 1), (3, 2), (2, 2))), ('utf-8', 'latin-1', ((2, 1), (2, 2), (3, 2))),
                          ('cp1252', 'latin-1', ((1, 1), (2, 2))), ('utf-8-sig', 'utf-8', ((3, 0), (4, 1), (2, 2))),
                          ('ascii', 'latin-1', ((1, 1),))):
        for n, m in sizes:
            run(h_eq, n=n, m=m, e1=e1, e2=e2)
    # table sanity and the unmodelled-codec contract
    for name, want in (('cp1252', 123), ('iso8859-1', 128), ('cp437', 128), ('koi8-r', 128)):
        t = charmap(canon(name))
        if t is None or len([v for v in t if v >= 128]) != want:
            problems.append(f'charmap {name}')
    for name in ('utf-16', 'shift_jis', 'cp037', 'utf-7'):
        if charmap(canon(name)) is not None:
            problems.append(f'{name} accepted as a single-byte charmap')
        try:
            SBytes([z3.BitVec('_u', 8)]).decode(name)
            problems.append(f'{name} decoded')
        except HarnessError as e:
            if canon(name) not in str(e):
                problems.append(f'HarnessError for {name} does not name the codec: {e}')
    try:
        SBytes([z3.BitVec('_u', 8)]).decode('no-such-codec')
        problems.append('unknown codec accepted')
    except LookupError:
        pass
    if problems:
        raise HarnessError('text codec model disagrees with CPython: ' + '; '.join(problems[:6]))
    return [f"text codecs utf-8 / utf-8-sig / ascii / latin-1 / cp1252 x errors strict/ignore/replace: decode, re-encode and cross-codec "
            f"equality on symbolic bytes agree with CPython on {stats['cases']} witnesses over {stats['paths']} explored paths "
            f"(every path checked on all pool inputs it admits, BOM cases included, plus a solver model); unmodelled codecs raise a HarnessError naming them"]
