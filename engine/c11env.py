"""c11env: environment for C11 (connecting to a peer: direct / indirect, fallback / race).

Built on engine/codec.py (byte-level proxies, C-boundary stubs of C01) and engine/c02env.py (FakeReader, reference
keystream).  New here:

* SymMap      dict stand-in whose keys may be symbolic (ticket -> waiter, user -> ip override): lookups compare the
              probe with the stored keys (`==` forks / is decided by z3) instead of hashing.  Exploration only.
* SLoop       VLoop with a single-step driver (`tick`) so that a harness can act before every loop step.
* Writer      StreamWriter stand-in whose drain() ends as scripted (ok / error / hangs) and that reports every
              frame to the simulated peer or server; close() delivers EOF to the paired reader like a transport.
* Wire        asyncio.open_connection / start_server stand-ins: every outgoing attempt ends as scripted (connected
              after a delay / refused after a delay / hangs); ports outside 1..65535 fail at once like the socket
              layer (a symbolic port forks here).
* reference encoders written from the pinned table spec/wire_layout.json (never from aioslsk's classes): expected
  frames of PeerInit, PeerPierceFirewall, ConnectToPeer, CannotConnect, GetPeerAddress.
* World       real Network (real constructor, Settings, EventBus) on the loop, observers, task bookkeeping.
"""
from __future__ import annotations

import asyncio
import contextlib
import json
import os
import socket

import z3

from engine import symex, codec, c02env
from engine.codec import SBytes, SStr, SWord, SIp, Box
from engine.c02env import FakeReader, FakeWriter, FakeServer, terms, ref_plain, ref_obfuscate
from engine.symex import SBool, SInt
from engine.vloop import VLoop

VERIF = os.path.dirname(os.path.dirname(os.path.abspath(__file__)))
MESSAGES = json.load(open(os.path.join(VERIF, 'spec', 'wire_layout.json')))['messages']


# --------------------------------------------------------------------------------------------------
# dict with symbolic keys
# --------------------------------------------------------------------------------------------------

def _key_eq(a, b) -> bool:
    r = (a == b)
    if r is NotImplemented:
        return False
    return bool(r)          # SBool: forks / decided by z3


def _unsupported(name):
    def f(self, *a, **kw):
        raise symex.HarnessError(f'SymMap.{name} is not modelled (the code under test started using it)')
    f.__name__ = name
    return f


class SymMap(dict):
    """dict stand-in for exploration: entries live in an insertion-ordered list, a lookup compares the probe with
    every stored key (identity first, then `==`, which forks on symbolic keys).  Same observable behaviour as
    dict for the operations below; anything else raises HarnessError instead of silently using the empty base."""

    def __init__(self, *a, **kw):
        super().__init__()
        self._e: list = []
        for k, v in dict(*a, **kw).items():
            self[k] = v

    def _find(self, k):
        for i, (kk, _) in enumerate(self._e):
            if kk is k:
                return i
        for i, (kk, _) in enumerate(self._e):
            if _key_eq(kk, k):
                return i
        return -1

    def __getitem__(self, k):
        i = self._find(k)
        if i < 0:
            raise KeyError(k)
        return self._e[i][1]

    def __setitem__(self, k, v):
        i = self._find(k)
        if i < 0:
            self._e.append([k, v])
        else:
            self._e[i][1] = v

    def __delitem__(self, k):
        i = self._find(k)
        if i < 0:
            raise KeyError(k)
        del self._e[i]

    def __contains__(self, k):
        return self._find(k) >= 0

    def __len__(self):
        return len(self._e)

    def __iter__(self):
        return iter([k for k, _ in self._e])

    def __bool__(self):
        return bool(self._e)

    _NO = object()

    def get(self, k, default=None):
        i = self._find(k)
        return default if i < 0 else self._e[i][1]

    def pop(self, k, default=_NO):
        i = self._find(k)
        if i < 0:
            if default is SymMap._NO:
                raise KeyError(k)
            return default
        return self._e.pop(i)[1]

    def setdefault(self, k, default=None):
        i = self._find(k)
        if i < 0:
            self._e.append([k, default])
            return default
        return self._e[i][1]

    def keys(self):
        return [k for k, _ in self._e]

    def values(self):
        return [v for _, v in self._e]

    def items(self):
        return [(k, v) for k, v in self._e]

    def clear(self):
        self._e.clear()

    def __repr__(self):
        return f'SymMap({len(self._e)} entries)'

    for _n in ('update', 'popitem', 'copy', '__or__', '__ror__', '__ior__', '__reversed__', '__eq__', '__ne__'):
        locals()[_n] = _unsupported(_n)
    del _n
    __hash__ = None


# --------------------------------------------------------------------------------------------------
# loop
# --------------------------------------------------------------------------------------------------

class SLoop(VLoop):
    def __init__(self, picker=None):
        super().__init__(picker)
        self.io_events: list = []       # (virtual time, fn): external I/O that is ready at that instant

    def tick(self, t_max):
        """one scheduling step.  'step': one ready callback ran; 'jump': nothing was ready, the clock moved to the
        next timer; None: nothing is scheduled up to t_max"""
        if self.step():
            return 'step'
        nt = self.next_timer()
        ht = min((w for w, _ in self.io_events), default=None)
        if ht is not None and (nt is None or ht <= nt):
            nt = ht
        if nt is None or nt > t_max:
            return None
        self._time = max(self._time, nt)
        # I/O that is ready when the loop wakes up is dispatched BEFORE the timers that became due (asyncio's _run_once
        # appends the selector events to the ready queue ahead of the due timer handles)
        due = [e for e in self.io_events if e[0] <= self._time]
        self.io_events = [e for e in self.io_events if e[0] > self._time]
        for _, fn in due:
            fn()
        return 'jump'

    def io_at(self, when, fn):
        """`fn` (plain function, run outside any callback) happens at virtual time `when`, ahead of every timer due then"""
        self.io_events.append((when, fn))

    def task(self, coro, name=None):
        """create a task from inside or outside a loop callback"""
        if self._running:
            return self.create_task(coro, name=name)
        return self.spawn(coro, name=name)


# --------------------------------------------------------------------------------------------------
# streams
# --------------------------------------------------------------------------------------------------

class Writer(FakeWriter):
    """drain() of the n-th write ends as `fault(writer, data)` says: 'ok' | 'error' | 'hang'"""

    def __init__(self, loop, peername, sockname, role):
        super().__init__(peername=peername, sockname=sockname)
        self.loop = loop
        self.role = role              # 'server' | 'out' (we connected) | 'in' (accepted)
        self.reader = None
        self.fault = None
        self.on_write = None
        self.log: list = []           # (virtual time, data)
        self._outcome = 'ok'
        self._hanging: list = []

    def write(self, data):
        if self.closed:
            raise ConnectionResetError('write on closed transport')
        self.written.append(data)
        self.log.append((self.loop.time(), data))
        self._outcome = self.fault(self, data) if self.fault is not None else 'ok'
        if self.on_write is not None:
            self.on_write(self, data)

    async def drain(self):
        if self.closed:
            raise ConnectionResetError('Connection lost')
        o = self._outcome
        if o == 'error':
            raise ConnectionResetError('Connection lost (scripted)')
        if o == 'hang':
            f = self.loop.create_future()
            self._hanging.append(f)
            await f

    def close(self):
        first = not self.closed
        super().close()
        if first:
            for f in self._hanging:
                if not f.done():
                    f.set_exception(ConnectionResetError('Connection lost'))
            self._hanging.clear()
            if self.reader is not None and not self.reader.eof:
                self.loop.call_soon(self.reader.feed_eof)     # connection_lost -> feed_eof, like a transport


class Attempt:
    """one call of asyncio.open_connection"""

    def __init__(self, n, host, port, t):
        self.n, self.host, self.port, self.t_start = n, host, port, t
        self.outcome = None      # 'ok' | 'refused' | 'hang' | 'badport' (port 0 / None: OSError) | 'overflow' (port > 65535: OverflowError)
        self.reader = self.writer = None
        self.t_end = None


class Wire:
    def __init__(self, symbolic, loop):
        self.symbolic = symbolic
        self.loop = loop
        self.attempts: list = []
        self.servers: dict = {}
        self.script = None           # (attempt) -> (outcome, delay[, loop iterations after the delay])
        self.writer_setup = None     # (attempt, writer) -> None

    async def open_connection(self, host=None, port=None, **kw):
        a = Attempt(len(self.attempts), host, port, self.loop.time())
        self.attempts.append(a)
        p = port.v if isinstance(port, Box) else port
        # (1) what the real asyncio.open_connection does with its ARGUMENTS before any attempt is made: a port outside
        # 0..65535 -> OverflowError (NOT an OSError); model of C10, validated against the real asyncio in C10's prelude.
        # The port is the value that actually reached this call (symbolic 32-bit word from the wire: forks here)
        try:
            from engine import c10env
            c10env.check_address(host, port)
        except (OverflowError, ValueError):
            a.outcome, a.t_end = 'overflow', self.loop.time()
            raise
        # (2) port 0 / no port: the attempt itself fails at once with an OSError (nothing listens on port 0)
        if p is None or not bool(p >= 1):
            a.outcome, a.t_end = 'badport', self.loop.time()
            raise OSError('cannot connect to port 0')
        res = self.script(a) if self.script is not None else ('ok', 0)
        outcome, delay, hops = res[0], res[1], (res[2] if len(res) > 2 else 0)
        a.outcome = outcome
        try:
            if outcome == 'hang':
                await self.loop.create_future()
            if delay:
                await asyncio.sleep(delay)
            for _ in range(hops):           # same virtual instant, `hops` loop iterations later
                await asyncio.sleep(0)
        finally:
            a.t_end = self.loop.time()      # (also when the caller gives up: time-out, cancellation)
        if outcome == 'refused':
            raise ConnectionRefusedError('refused (scripted)')
        r = FakeReader(self.symbolic)
        w = Writer(self.loop, (host, port), ('10.0.0.1', 50000 + a.n), 'server' if a.n == 0 else 'out')
        w.reader = r
        a.reader, a.writer = r, w
        if self.writer_setup is not None:
            self.writer_setup(a, w)
        return r, w

    async def start_server(self, cb, host=None, port=None, **kw):
        s = FakeServer(cb, host, port)
        self.servers[port] = s
        return s


@contextlib.contextmanager
def wire(symbolic, loop):
    """asyncio.open_connection / asyncio.start_server (the attributes the aioslsk connection module calls) -> Wire"""
    w = Wire(symbolic, loop)
    old = asyncio.open_connection, asyncio.start_server
    asyncio.open_connection, asyncio.start_server = w.open_connection, w.start_server
    try:
        yield w
    finally:
        asyncio.open_connection, asyncio.start_server = old


# --------------------------------------------------------------------------------------------------
# reference encoders (pinned table; independent of aioslsk.protocol)
# --------------------------------------------------------------------------------------------------

def bv(v, bits):
    """python int / SWord / z3 bit-vector -> z3 bit-vector of exactly `bits` bits (low bits; zero-extended)"""
    if isinstance(v, Box):
        v = v.v
    if isinstance(v, bool):
        v = int(v)
    if isinstance(v, int):
        return z3.BitVecVal(v, bits)
    if isinstance(v, SWord):
        return z3.simplify(v.resized(bits))
    if isinstance(v, z3.BitVecRef):
        if v.size() == bits:
            return v
        return z3.ZeroExt(bits - v.size(), v) if v.size() < bits else z3.Extract(bits - 1, 0, v)
    raise symex.HarnessError(f'bv: {type(v)}')


def le_terms(v, nbytes):
    if isinstance(v, Box):
        v = v.v
    if isinstance(v, int) and not isinstance(v, bool):
        return list(v.to_bytes(nbytes, 'little'))
    e = bv(v, 8 * nbytes)
    return [codec._norm(z3.Extract(8 * i + 7, 8 * i, e)) for i in range(nbytes)]


def text_terms(v):
    if isinstance(v, Box):
        v = v.v
    if isinstance(v, str):
        return list(v.encode('utf-8'))
    if isinstance(v, SStr):
        return list(v.raw.b)
    return list(terms(v))


def ip_terms(v):
    """wire order of an IPv4 address: the four octets reversed"""
    if isinstance(v, Box):
        v = v.v
    if isinstance(v, str):
        return list(reversed(socket.inet_aton(v)))
    if isinstance(v, SIp):
        return list(reversed(list(v.octets.b)))
    return list(reversed(list(terms(v))))


def bool_terms(v):
    if isinstance(v, SBool):
        return [codec._norm(z3.If(v.e, z3.BitVecVal(1, 8), z3.BitVecVal(0, 8)))]
    return [1 if v else 0]


_W = {'uint8': 1, 'uint16': 2, 'uint32': 4, 'uint64': 8}


def ref_frame(name, **vals):
    """plain wire frame (length prefix + code + payload) of pinned message `name`; optional fields are present
    iff a value is given (prefix-closed, checked)"""
    L = MESSAGES[name]
    payload, ended = [], False
    for f in L['fields']:
        v = vals.get(f['name'])
        if v is None:
            if not f.get('optional'):
                raise symex.HarnessError(f'ref_frame {name}: {f["name"]} missing')
            ended = True
            continue
        if ended:
            raise symex.HarnessError(f'ref_frame {name}: optional fields must be prefix-closed')
        t = f['type']
        if t in _W:
            payload += le_terms(v, _W[t])
        elif t == 'string':
            bs = text_terms(v)
            payload += le_terms(len(bs), 4) + bs
        elif t == 'ipaddr':
            payload += ip_terms(v)
        elif t == 'boolean':
            payload += bool_terms(v)
        else:
            raise symex.HarnessError(f'ref_frame: type {t}')
    extra = set(vals) - {f['name'] for f in L['fields']}
    if extra:
        raise symex.HarnessError(f'ref_frame {name}: unknown fields {extra}')
    body = le_terms(L['id'], L['id_width']) + payload
    return le_terms(len(body), 4) + body


def frame_code(data, idw=4):
    """message code of a plain frame whose code bytes are concrete (they are: the class is fixed per send)"""
    t = terms(data)
    cb = t[4:4 + idw]
    if not all(isinstance(x, int) for x in cb):
        raise symex.HarnessError('frame with symbolic message code')
    return int.from_bytes(bytes(cb), 'little')


def bytes_equal(a, b):
    """python bool / z3 Bool"""
    ta, tb = list(terms(a)), list(terms(b))
    if len(ta) != len(tb):
        return False
    return codec._and(*[codec._teq(x, y) for x, y in zip(ta, tb)])


def zb(x):
    """python bool / SBool / z3 Bool -> python bool or z3 Bool (no forking)"""
    if isinstance(x, SBool):
        e = z3.simplify(x.e)
        return True if z3.is_true(e) else False if z3.is_false(e) else e
    return x


def z_and(*xs):
    return codec._and(*[zb(x) for x in xs])


def z_or(*xs):
    return codec._or(*[zb(x) for x in xs])


def z_not(x):
    return codec._not(zb(x))


def z_ite(c, a, b):
    c = zb(c)
    if isinstance(c, bool):
        return a if c else b
    return z3.If(c, a, b)


def z_iff(a, b):
    a, b = zb(a), zb(b)
    if isinstance(a, bool) and isinstance(b, bool):
        return a == b
    if isinstance(a, bool):
        return b if a else z_not(b)
    if isinstance(b, bool):
        return a if b else z_not(a)
    return a == b


def w_eq(a, b, bits=32):
    """equality of two integers (python int / SWord / BV) that are known to fit `bits` bits"""
    if isinstance(a, Box):
        a = a.v
    if isinstance(b, Box):
        b = b.v
    if isinstance(a, int) and isinstance(b, int):
        return a == b
    e = z3.simplify(bv(a, bits) == bv(b, bits))
    return True if z3.is_true(e) else False if z3.is_false(e) else e


def w_nonzero(a, bits=32):
    return z_not(w_eq(a, 0, bits))


def ref_select(clear, obf, prefer: bool, bits=32):
    """reference for the port choice: the obfuscated port when only it is available or when both are and
    obfuscation is preferred, otherwise the clear port.  returns (port as BV/int, use_obfuscated)"""
    c_ok, o_ok = w_nonzero(clear, bits), w_nonzero(obf, bits)
    use_obf = z_or(z_and(c_ok, o_ok, prefer), z_and(z_not(c_ok), o_ok))
    if isinstance(use_obf, bool):
        return (obf if use_obf else clear), use_obf
    return z3.If(use_obf, bv(obf, bits), bv(clear, bits)), use_obf


# --------------------------------------------------------------------------------------------------
# the world: real Network + observers
# --------------------------------------------------------------------------------------------------

class World:
    def __init__(self, c, loop, wr, mode, prefer_obfuscated):
        from aioslsk.events import EventBus, ConnectionStateChangedEvent, PeerInitializedEvent
        from aioslsk.network.network import Network, PeerConnectMode
        from aioslsk.settings import Settings, CredentialsSettings
        self.c, self.loop, self.wr = c, loop, wr
        settings = Settings(credentials=CredentialsSettings(username='me', password='pw'))
        settings.network.upnp.enabled = False
        settings.network.server.reconnect.auto = False
        settings.network.peer.connect_mode = PeerConnectMode.RACE if mode == 'race' else PeerConnectMode.FALLBACK
        settings.network.peer.obfuscate = bool(prefer_obfuscated)
        self.settings = settings
        self.bus = EventBus()
        self.tasks: list = []          # (coroutine qualname, self of the coroutine, task)

        def factory(lp, coro):
            t = asyncio.Task(coro, loop=lp)
            fr = getattr(coro, 'cr_frame', None)
            self.tasks.append((getattr(coro, '__qualname__', ''), fr.f_locals.get('self') if fr is not None else None, t))
            return t
        loop.set_task_factory(factory)
        self.net = loop.call(Network, settings, self.bus)
        if c.symbolic:
            self.net._expected_connection_futures = SymMap()
            self.net._ip_overrides = SymMap(self.net._ip_overrides)
        self.states, self.inits = [], []

        def on_state(ev):
            self.states.append((ev.connection, ev.state, ev.close_reason))

        def on_init(ev):
            self.inits.append((ev.connection, ev.requested))
        self._keep = (on_state, on_init)
        self.bus.register(ConnectionStateChangedEvent, on_state)
        self.bus.register(PeerInitializedEvent, on_init)
        self.server_reader = self.server_writer = None
        self.accepted: list = []       # (reader, writer, accept task)

    def start(self):
        """Network.initialize() (listening ports + server connection) and, like SoulSeekClient.login, the server reader"""
        self.loop.run_until_complete(self.net.initialize())
        a = self.wr.attempts[0]
        self.server_reader, self.server_writer = a.reader, a.writer
        self.loop.call(self.net.server_connection.start_reader_task)
        self.loop.run_ready()

    def incoming(self, obf_port, peer=('9.9.9.9', 999)):
        """a peer connects to one of our listening ports: the real ListeningConnection.accept runs in its own task"""
        lc = self.net.listening_connections[1 if obf_port else 0]
        srv = self.wr.servers[lc.port]
        r = FakeReader(self.c.symbolic)
        w = Writer(self.loop, peer, ('10.0.0.1', lc.port), 'in')
        w.reader = r
        task = self.loop.task(srv.cb(r, w), name='client-connected-cb')

        def done(t):
            if t.cancelled():
                w.close()
                return
            exc = t.exception()
            if exc is not None:
                self.loop.call_exception_handler({'message': 'Unhandled exception in client_connected_cb', 'exception': exc})
                w.close()
        task.add_done_callback(done)
        self.accepted.append((r, w, task))
        return r, w, task

    def conn_of(self, reader):
        """the PeerConnection object that owns this reader (registered or not)"""
        for cn, _, _ in self.states:
            if getattr(cn, '_reader', None) is reader:
                return cn
        for cn in self.net.peer_connections:
            if cn._reader is reader:
                return cn
        return None

    def tasks_of(self, suffix):
        return [t for q, _, t in self.tasks if q.endswith(suffix)]

    def reader_alive(self, conn):
        return any(not t.done() for q, s, t in self.tasks if q.endswith('_message_reader_loop') and s is conn)

    def dead_tasks(self, ignore=()):
        """tasks that ended with an exception nobody retrieves (what would reach the loop exception handler)"""
        out = []
        for q, s, t in self.tasks:
            if t in ignore or any(q.endswith(i) for i in ignore if isinstance(i, str)):
                continue
            if t.done() and not t.cancelled() and t.exception() is not None:
                out.append((q, repr(t.exception())))
        return out


STUBS = [
    'asyncio.open_connection / asyncio.start_server (attributes of the asyncio module the aioslsk connection module calls) -> '
    'engine.c11env.Wire: every outgoing attempt ends as scripted by the scenario (connected after a delay / refused after a delay / '
    'never answers); before that the arguments are checked like the real asyncio does (engine.c10env.check_address: a port beyond '
    '65535 raises OverflowError, which is not an OSError; validated against the real asyncio.open_connection in the prelude), port 0 / '
    'None fails at once with an OSError (symbolic ports fork at both tests); streams are engine.c02env.FakeReader '
    '(byte-accurate, symbolic bytes) and engine.c11env.Writer (records frames; drain() ok / raises ConnectionResetError / hangs as '
    'scripted; close() delivers EOF to the paired reader via call_soon like a transport)',
    'Network._expected_connection_futures and Network._ip_overrides -> engine.c11env.SymMap while exploring (same mapping '
    'operations; a lookup compares the probe with the stored keys by == so that a symbolic ticket / user name forks instead of '
    'being hashed); plain dict in concrete replay',
    'asyncio event loop -> engine.vloop.VLoop (virtual time, FIFO ready queue, timer heap); engine.c11env.SLoop adds io_at(): external I/O '
    'that is ready at a virtual instant is dispatched ahead of the timers due at that instant (as asyncio._run_once does)',
    'secrets.token_bytes in aioslsk.protocol.obfuscation -> key bytes supplied by the harness (symbolic; model bytes in replay)',
    'logging disabled (engine/cli.py)',
]
