"""shared environment for the distributed-network checks (C13, C14).

Everything that decides something is the *real* aioslsk code: real
DistributedNetwork (real constructor), real EventBus, real Settings, real
PeerConnection / ServerConnection objects (real queue_message(s), send_message,
disconnect, set_state, _cancel_queued_messages), real Network.on_state_changed /
_on_peer_connection_state_changed / remove_peer_connection / on_message_received /
send_server_messages (borrowed by a Network built with object.__new__).

Environment fakes (kept in concrete replay as well):
  * FakeWriter      - the socket: records every frame handed to StreamWriter.write
  * create_peer_connection - the harness decides when an outgoing connection completes
  * send_peer_messages     - recorder (C14: the reply to the asker)
Symbolic-only stub: `encode_message_data` is the identity on the connections (struct
packing cannot take z3 values); in concrete replay the real serialiser runs and the
frames are decoded back with the real deserialiser.

Names (users, roots, queries) are small-domain Int tokens while symbolic and the
strings 'user<k>' / 'q<k>' in concrete replay; only ==, != and container membership
are ever applied to them by the code under test.
"""
from __future__ import annotations

import asyncio
import logging
import types

from engine import symex
from engine.symex import SInt, SBool
from engine.vloop import VLoop

from aioslsk.distributed import DistributedNetwork, DistributedPeer
from aioslsk.events import (
    EventBus, PeerInitializedEvent, ConnectionStateChangedEvent, SessionDestroyedEvent, SessionInitializedEvent,
)
from aioslsk.network.network import Network
from aioslsk.network.connection import (
    CloseReason, ConnectionState, PeerConnection, PeerConnectionState, PeerConnectionType, ServerConnection,
)
from aioslsk.protocol.messages import (
    BranchLevel, BranchRoot, ToggleParentSearch, DistributedBranchLevel, DistributedBranchRoot,
    DistributedMessage, ServerMessage,
)
from aioslsk.session import Session
from aioslsk.settings import Settings
from aioslsk.user.model import User

# the code under test formats proxies into log records (`%d`); logging is an output
# channel outside every property here
logging.disable(logging.CRITICAL)

OWN = 0            # token of the logged-in user's name
N_NAMES = 6        # name tokens 0..5
MAX_LEVEL = 2 ** 32 - 2   # level + 1 must still be a uint32 (see docs/C13.md, assumptions)

SETTINGS = Settings(credentials={'username': 'user0', 'password': 'x'})


class _TokenSettings:
    """symbolic runs: the real Settings object with credentials.username replaced by the own-name token
    (names are tokens there); everything else is delegated"""

    def __init__(self, real, username):
        self._real = real
        self.credentials = types.SimpleNamespace(username=username, password='x')

    def __getattr__(self, k):
        return getattr(self._real, k)


def settings_for(c):
    return _TokenSettings(SETTINGS, OWN) if c.symbolic else SETTINGS


def nm(c, v):
    """token -> the value the code sees"""
    return v if c.symbolic else f'user{v}'


def tok(c, base, lo=0, hi=N_NAMES - 1):
    return nm(c, c.fresh_int(base, lo, hi))


def qtok(c, base):
    v = c.fresh_int(base, 0, 3)
    return v if c.symbolic else f'q{v}'


def sel(cond, a, b):
    """non-forking choice usable in both modes"""
    if isinstance(cond, bool):
        return a if cond else b
    return symex.ite(cond, a, b)


def same(a, b):
    """equality usable in both modes, never forks"""
    r = (a == b)
    return r


def conj(*xs):
    if all(isinstance(x, bool) for x in xs):
        return all(xs)
    return symex.And(*xs)


class FakeWriter:
    """the socket.  `hang_close`: wait_closed() does not return (connection stays CLOSING)"""

    def __init__(self, decoder=None, hang_close=False):
        self.frames = []
        self.decoder = decoder
        self.closing = False
        self.hang_close = hang_close
        self.hang_drain = False
        self.hang_from = 0        # drain only stalls once this many frames were written
        self.fault = None         # 'write': write() raises; 'drain': the frame is taken, drain() raises (peer reset)
        self._closed_fut = None
        self._drain_waiters = []

    def write(self, data):
        if self.fault == 'write':
            raise ConnectionResetError('write fault injected by the harness')
        if isinstance(data, (bytes, bytearray)) and self.decoder is not None:
            data = self.decoder(bytes(data))
        self.frames.append(data)

    async def drain(self):
        if self.fault == 'drain':
            raise ConnectionResetError('drain fault injected by the harness')
        if self.hang_drain and len(self.frames) >= self.hang_from:
            # a full socket buffer: every writer waits until the transport resumes (FIFO, as asyncio's _drain_helper)
            fut = asyncio.get_running_loop().create_future()
            self._drain_waiters.append(fut)
            await fut
        return None

    def release(self):
        """the socket becomes writable again / finishes closing"""
        self.hang_drain = False
        self.hang_close = False
        for fut in self._drain_waiters:
            if not fut.done():
                fut.set_result(None)
        self._drain_waiters = []
        if self._closed_fut is not None and not self._closed_fut.done():
            self._closed_fut.set_result(None)

    def is_closing(self):
        return self.closing

    def close(self):
        self.closing = True

    async def wait_closed(self):
        if self.hang_close:
            self._closed_fut = asyncio.get_running_loop().create_future()
            await self._closed_fut
        return None

    def get_extra_info(self, *a, **kw):
        return ('127.0.0.1', 1)


class FakeReader:
    """the receiving half of an accepted socket: hands out the prepared bytes, then nothing more arrives"""

    def __init__(self, data=b''):
        self.buf = bytearray(data)

    async def readexactly(self, n):
        if len(self.buf) < n:
            await asyncio.get_running_loop().create_future()      # no more data: the read stays pending
        out = bytes(self.buf[:n])
        del self.buf[:n]
        return out

    async def read(self, n=-1):
        return await self.readexactly(n)


def _identity(message):
    return message


class _NoOverrides:
    """settings.debug.ip_overrides when nothing is configured (a dict lookup would hash the name token)"""

    def get(self, key, default=None):
        return default


class World:
    """one client under test: real DistributedNetwork on a real EventBus, a Network shell
    with the real dispatch methods, connections with recording sockets, a virtual loop"""

    def __init__(self, c, picker=None, with_session=True):
        self.c = c
        self.loop = VLoop(picker=picker)
        self.bus = EventBus()
        net = object.__new__(Network)
        self.settings = settings_for(c)
        net._settings = self.settings
        net._event_bus = self.bus
        net._MESSAGE_MAP = {}
        net._expected_response_futures = []
        net.peer_connections = []
        self.net = net
        self.server = self._mk_conn(ServerConnection('server', 2242, net), ServerMessage.deserialize_request)
        self.server.state = ConnectionState.CONNECTED
        net.server_connection = self.server
        self.pending_connects = []     # [username, future] of create_peer_connection calls in flight
        self.peer_replies = []         # (username, message) handed to send_peer_messages
        net.create_peer_connection = self._create_peer_connection
        net.send_peer_messages = self._send_peer_messages
        self.own = nm(c, OWN)
        self.dn = self.loop.call(DistributedNetwork, self.settings, self.bus, net)
        self.session = Session(user=User(name=self.own), ip_address='1.1.1.1', greeting='', client_version=1,
                               minor_version=1)
        if with_session:
            self.dn._session = self.session
        self.conns = []
        self.handler_errors = []

    # ---- connections ------------------------------------------------------
    def _mk_conn(self, conn, decoder, hang_close=False):
        conn._writer = FakeWriter(decoder=None if self.c.symbolic else decoder, hang_close=hang_close)
        conn.fake_writer = conn._writer     # disconnect() drops _writer; the recorded frames stay reachable
        if self.c.symbolic:
            conn.encode_message_data = _identity
        return conn

    def new_peer_conn(self, username, typ=PeerConnectionType.DISTRIBUTED, state=ConnectionState.CONNECTED,
                      incoming=False, hang_close=False):
        conn = PeerConnection('10.0.0.1', 1000 + len(self.conns), self.net, username=username, connection_type=typ,
                              incoming=incoming)
        self._mk_conn(conn, DistributedMessage.deserialize_request, hang_close=hang_close)
        conn.state = state
        # what Network._finalize_peer_connection does, minus starting a reader on a socket that does not exist
        conn.connection_state = PeerConnectionState.ESTABLISHED
        self.net.peer_connections.append(conn)
        self.conns.append(conn)
        return conn

    def frames(self, conn):
        return conn.fake_writer.frames

    def accept_incoming(self, username, typ=PeerConnectionType.DISTRIBUTED, hang_from=0):
        """a peer connects to our listening port and sends PeerInit: the REAL ListeningConnection.accept ->
        Network.on_peer_accepted (reads and decodes the init message from the socket) -> _finalize_peer_connection ->
        PeerInitializedEvent(requested=False) -> ... -> set_state(CONNECTED) after the callback returned.  The
        connection object is created by accept(); its state evolves exactly as the real code sets it.
        `hang_from` = n > 0: the peer's socket stops draining from the n-th frame we write to it.
        Returns (connection, task running accept)."""
        import aioslsk.network.connection as conn_mod
        from aioslsk.network.connection import ListeningConnection
        from aioslsk.protocol.messages import PeerInit
        symbolic = self.c.symbolic
        init = PeerInit.Request(username, typ, 0)
        wire = PeerInit.Request('placeholder', typ, 0).serialize() if symbolic else init.serialize()
        writer = FakeWriter(decoder=None if symbolic else DistributedMessage.deserialize_request)
        writer.hang_drain = hang_from > 0
        writer.hang_from = hang_from
        reader = FakeReader(wire)
        made = []
        real_cls = conn_mod.PeerConnection

        def factory(*a, **kw):
            # accept() builds the connection itself; the harness only needs a handle on it.  Symbolic runs: the codec
            # boundary is the identity in both directions (the wire carries a placeholder name, the decoded object the token)
            conn_mod.__dict__['PeerConnection'] = real_cls
            conn = real_cls(*a, **kw)
            conn.fake_writer = writer
            if symbolic:
                conn.encode_message_data = _identity
                conn.decode_message_data = lambda data: init
            made.append(conn)
            return conn

        if not hasattr(self, 'listening'):
            self.listening = ListeningConnection('0.0.0.0', 2234, self.net)
            self.listening.state = ConnectionState.CONNECTED
        conn_mod.__dict__['PeerConnection'] = factory
        try:
            task = self.run(self.listening.accept(reader, writer))
        finally:
            conn_mod.__dict__['PeerConnection'] = real_cls
        if len(made) != 1:
            raise symex.HarnessError('accept() did not create exactly one connection')
        self.conns.append(made[0])
        return made[0], task

    def connect_to_peer(self, username, typ=PeerConnectionType.DISTRIBUTED, hang_from=0):
        """the peer cannot reach us directly and asks through the server: the REAL Network._on_connect_to_peer ->
        _handle_connect_to_peer creates the PeerConnection, connect()s it (CONNECTING -> CONNECTED; only
        asyncio.open_connection is the environment), sends PeerPierceFirewall, _finalize_peer_connection, emits
        PeerInitializedEvent(requested=False) - for a connection with incoming == False.
        `hang_from` = n > 0: the peer's socket stops draining from the n-th frame we write after the pierce-firewall frame.
        Returns (connection, the connect-to-peer task)."""
        import aioslsk.network.connection as conn_mod
        import aioslsk.network.network as net_mod
        from aioslsk.protocol.messages import ConnectToPeer, PeerInitializationMessage
        symbolic = self.c.symbolic
        state = {'n': 0}

        def decoder(data):
            state['n'] += 1
            if state['n'] == 1:       # the first frame on a connection is a peer-init message
                return PeerInitializationMessage.deserialize_request(data)
            return DistributedMessage.deserialize_request(data)

        writer = FakeWriter(decoder=None if symbolic else decoder)
        writer.hang_drain = hang_from > 0
        writer.hang_from = hang_from + 1
        reader = FakeReader(b'')
        made = []
        real_cls = net_mod.PeerConnection

        def factory(*a, **kw):
            net_mod.__dict__['PeerConnection'] = real_cls
            conn = real_cls(*a, **kw)
            conn.fake_writer = writer
            if symbolic:
                conn.encode_message_data = _identity
            made.append(conn)
            return conn

        async def open_connection(host, port, **kw):
            return reader, writer

        class _Asyncio:
            def __getattr__(self, k):
                return open_connection if k == 'open_connection' else getattr(asyncio, k)

        net = self.net
        if not hasattr(net, '_create_peer_connection_tasks'):
            net._create_peer_connection_tasks = []
            net._ip_overrides = _NoOverrides()
        msg = ConnectToPeer.Response(username, typ, '10.0.0.7', 2234, 77, False)
        saved_asyncio = conn_mod.__dict__['asyncio']
        net_mod.__dict__['PeerConnection'] = factory
        conn_mod.__dict__['asyncio'] = _Asyncio()
        try:
            self.run(net._on_connect_to_peer(msg, self.server))
        finally:
            net_mod.__dict__['PeerConnection'] = real_cls
            conn_mod.__dict__['asyncio'] = saved_asyncio
        if len(made) != 1:
            raise symex.HarnessError('_handle_connect_to_peer did not create exactly one connection')
        self.conns.append(made[0])
        return made[0], net._create_peer_connection_tasks[-1] if net._create_peer_connection_tasks else None

    async def _create_peer_connection(self, username, typ, ip=None, port=None, obfuscate=False):
        fut = asyncio.get_running_loop().create_future()
        entry = [username, fut]
        self.pending_connects.append(entry)
        try:
            conn = await fut
        finally:
            if entry in self.pending_connects:
                self.pending_connects.remove(entry)
        # as Network._make_direct_connection: the event is emitted from inside the connecting task
        await self.bus.emit(PeerInitializedEvent(conn, requested=True))
        return conn

    async def _send_peer_messages(self, username, *messages, raise_on_error=True):
        for m in messages:
            self.peer_replies.append((username, m))

    # ---- driving -------------------------------------------------------------
    def run(self, coro):
        """run one environment event (a coroutine of the real code) until the loop is idle"""
        t = self.loop.spawn(coro)
        self.loop.run_ready()
        if t.done() and not t.cancelled() and t.exception() is not None:
            self.handler_errors.append(t.exception())
        return t

    def start(self, coro):
        return self.loop.spawn(coro)

    def settle(self):
        self.loop.run_ready()

    def deliver(self, msg, conn):
        return self.run(self.net.on_message_received(msg, conn))

    def ev_peer_initialized(self, conn, requested):
        return self.run(self.bus.emit(PeerInitializedEvent(conn, requested=requested)))

    def ev_close(self, conn, reason=CloseReason.EOF):
        return self.run(conn.disconnect(reason))

    def ev_connect_ok(self, idx=0):
        """the idx-th outgoing connection attempt completes"""
        username, fut = self.pending_connects[idx]
        conn = self.new_peer_conn(username)
        self.loop.call(fut.set_result, conn)
        self.loop.run_ready()
        return conn

    def ev_session_destroyed(self):
        self.server.state = ConnectionState.CLOSED
        self.server._is_closing = True
        self.run(self.bus.emit(ConnectionStateChangedEvent(self.server, ConnectionState.CLOSED, CloseReason.EOF)))
        return self.run(self.bus.emit(SessionDestroyedEvent(self.session)))

    def ev_session_initialized(self):
        self.server.state = ConnectionState.CONNECTED
        self.server._is_closing = False
        return self.run(self.bus.emit(SessionInitializedEvent(self.session, None)))

    def cleanup(self):
        self.loop.cleanup()


# ----------------------------------------------------------------------------------
# reference: what a receiver believes after the frames it got (protocol convention:
# level 0 implies "the sender is the root" unless a root is named afterwards)
# ----------------------------------------------------------------------------------

class View:
    __slots__ = ('level', 'root')

    def __init__(self, level=None, root=None):
        self.level = level
        self.root = root

    def copy(self):
        return View(self.level, self.root)

    def on_level(self, level, sender):
        self.level = level
        z = (level == 0)
        if isinstance(z, bool):
            if z:
                self.root = sender
        elif self.root is None:
            # unknown root stays unknown unless level == 0; callers only reach this with a fork
            if bool(z):
                self.root = sender
        else:
            self.root = symex.ite(z, sender, self.root)

    def on_root(self, root):
        self.root = root

    def apply_distributed(self, frames, sender):
        for f in frames:
            if type(f) is DistributedBranchLevel.Request:
                self.on_level(f.level, sender)
            elif type(f) is DistributedBranchRoot.Request:
                self.on_root(f.username)


class ServerView:
    __slots__ = ('level', 'root', 'search')

    def __init__(self, level=None, root=None, search=None):
        self.level, self.root, self.search = level, root, search

    def apply(self, frames):
        n = 0
        for f in frames:
            if type(f) is BranchLevel.Request:
                self.level = f.level
                n += 1
            elif type(f) is BranchRoot.Request:
                self.root = f.username
                n += 1
            elif type(f) is ToggleParentSearch.Request:
                self.search = f.enable
                n += 1
        return n


def position(own, parent_view):
    """the position derived from the current parent: (level, root, ask for parents)"""
    if parent_view is None:
        return 0, own, True
    return parent_view.level + 1, parent_view.root, False
