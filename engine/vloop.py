"""deterministic virtual-time asyncio event loop (DESIGN §2.4).

Runs the real aioslsk coroutines (C asyncio.Task / Future accepted) without
sockets or wall-clock time.  FIFO ready queue, timer heap ordered by (when, seq),
virtual time(); run_in_executor is synchronous; unhandled exceptions reported to
the loop exception handler are captured in `self.errors`.  An optional `picker`
lets a harness choose which ready callback runs next (schedule as discriminant).
"""
from __future__ import annotations

import asyncio
import collections
import contextvars
import heapq
from asyncio import events


class VLoop(asyncio.AbstractEventLoop):

    def __init__(self, picker=None):
        self._time = 0.0
        self._ready = collections.deque()
        self._timers = []
        self._seq = 0
        self._closed = False
        self._running = False
        self._stopping = False
        self._exc_handler = None
        self.errors: list = []
        self.picker = picker
        self.steps = 0
        self._task_factory = None
        self._debug = False
        self.created_tasks: list = []

    # ---- clock -------------------------------------------------------------
    def time(self):
        return self._time

    # ---- scheduling --------------------------------------------------------
    def call_soon(self, callback, *args, context=None):
        h = asyncio.Handle(callback, args, self, context)
        self._ready.append(h)
        return h

    call_soon_threadsafe = call_soon

    def call_at(self, when, callback, *args, context=None):
        t = asyncio.TimerHandle(when, callback, args, self, context)
        self._seq += 1
        heapq.heappush(self._timers, (when, self._seq, t))
        t._scheduled = True
        return t

    def call_later(self, delay, callback, *args, context=None):
        return self.call_at(self._time + max(0, delay), callback, *args, context=context)

    def _timer_handle_cancelled(self, handle):
        pass

    def create_future(self):
        return asyncio.Future(loop=self)

    def create_task(self, coro, *, name=None, context=None):
        if self._task_factory is not None:
            t = self._task_factory(self, coro)
        elif context is None:
            t = asyncio.Task(coro, loop=self, name=name)
        else:
            t = asyncio.Task(coro, loop=self, name=name, context=context)
        self.created_tasks.append(t)
        return t

    def set_task_factory(self, factory):
        self._task_factory = factory

    def get_task_factory(self):
        return self._task_factory

    def run_in_executor(self, executor, func, *args):
        fut = self.create_future()
        try:
            fut.set_result(func(*args))
        except Exception as e:  # noqa
            fut.set_exception(e)
        return fut

    def set_default_executor(self, executor):
        pass

    # ---- state ---------------------------------------------------------------
    def is_running(self):
        return self._running

    def is_closed(self):
        return self._closed

    def close(self):
        self._closed = True

    def stop(self):
        self._stopping = True

    def get_debug(self):
        return self._debug

    def set_debug(self, enabled):
        self._debug = enabled

    async def shutdown_asyncgens(self):
        pass

    async def shutdown_default_executor(self, timeout=None):
        pass

    # ---- exception handling ----------------------------------------------
    def set_exception_handler(self, handler):
        self._exc_handler = handler

    def get_exception_handler(self):
        return self._exc_handler

    def default_exception_handler(self, context):
        self.errors.append(context)

    def call_exception_handler(self, context):
        if self._exc_handler is not None:
            try:
                self._exc_handler(self, context)
                return
            except Exception:  # noqa
                pass
        self.errors.append(context)

    # ---- running ---------------------------------------------------------------
    def _move_due_timers(self):
        while self._timers and self._timers[0][0] <= self._time:
            _, _, t = heapq.heappop(self._timers)
            if not t._cancelled:
                self._ready.append(t)

    def _drop_cancelled_timers(self):
        while self._timers and self._timers[0][2]._cancelled:
            heapq.heappop(self._timers)

    def step(self) -> bool:
        """run one ready callback; returns False when nothing is ready"""
        self._move_due_timers()
        while self._ready:
            if self.picker is not None and len(self._ready) > 1:
                live = [h for h in self._ready if not h._cancelled]
                if len(live) > 1:
                    i = self.picker(len(live))
                    h = live[i]
                    self._ready.remove(h)
                else:
                    h = self._ready.popleft()
            else:
                h = self._ready.popleft()
            if h._cancelled:
                continue
            self.steps += 1
            self._enter()
            try:
                h._run()
            finally:
                self._leave()
            return True
        return False

    def _enter(self):
        self._prev = events._get_running_loop()
        events._set_running_loop(self)
        self._running = True

    def _leave(self):
        self._running = False
        events._set_running_loop(self._prev)

    def next_timer(self):
        self._drop_cancelled_timers()
        return self._timers[0][0] if self._timers else None

    def run_ready(self, max_steps=100000):
        """run until no callback is ready at the current virtual instant"""
        n = 0
        while self.step():
            n += 1
            if n > max_steps:
                raise RuntimeError('VLoop: step bound exceeded (livelock?)')
        return n

    def advance_to(self, when, max_steps=100000):
        """run everything scheduled up to and including virtual instant `when`"""
        n = self.run_ready(max_steps)
        while True:
            nt = self.next_timer()
            if nt is None or nt > when:
                break
            self._time = max(self._time, nt)
            n += self.run_ready(max_steps)
            if n > max_steps:
                raise RuntimeError('VLoop: step bound exceeded')
        self._time = max(self._time, when)
        n += self.run_ready(max_steps)
        return n

    def advance(self, dt, max_steps=100000):
        return self.advance_to(self._time + dt, max_steps)

    def run_until_quiet(self, max_time=None, max_steps=100000):
        """run, jumping over idle periods, until nothing is scheduled (or max_time)"""
        n = self.run_ready(max_steps)
        while True:
            nt = self.next_timer()
            if nt is None or (max_time is not None and nt > max_time):
                break
            self._time = max(self._time, nt)
            n += self.run_ready(max_steps)
            if n > max_steps:
                raise RuntimeError('VLoop: step bound exceeded')
        return n

    def run_until_complete(self, future, max_time=None, max_steps=100000):
        fut = asyncio.ensure_future(future, loop=self)
        n = 0
        while not fut.done():
            if not self.step():
                nt = self.next_timer()
                if nt is None or (max_time is not None and nt > max_time):
                    raise RuntimeError('VLoop: future never completes (deadlock)')
                self._time = max(self._time, nt)
            n += 1
            if n > max_steps:
                raise RuntimeError('VLoop: step bound exceeded')
        return fut.result()

    def run_forever(self):
        raise NotImplementedError

    def spawn(self, coro, name=None):
        """create a task from outside the loop"""
        self._enter()
        try:
            return self.create_task(coro, name=name)
        finally:
            self._leave()

    def call(self, fn, *a, **kw):
        """call a plain function with this loop set as running loop"""
        self._enter()
        try:
            return fn(*a, **kw)
        finally:
            self._leave()

    def pending_tasks(self):
        return [t for t in self.created_tasks if not t.done()]

    def cleanup(self):
        """cancel whatever is left so that no 'task destroyed' noise leaks between paths"""
        for t in self.pending_tasks():
            t.cancel()
        try:
            self.run_ready(10000)
        except Exception:  # noqa
            pass
        self.created_tasks.clear()
        self._ready.clear()
        self._timers.clear()
