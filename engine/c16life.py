"""C16 sentences 2-4: environment for the session life-cycle harnesses of props/c16.py.

A real SoulSeekClient is started (`start()` -> `connect()` -> `Network.initialize()`), logged in, hit by a
fault and stopped on the virtual loop; TCP is simulated by replacing `asyncio.open_connection` /
`asyncio.start_server` in the module globals of aioslsk.network.connection (`SimNet`).  Nothing else of
aioslsk is replaced except, while exploring symbolically, the codec of the ServerConnection instance
(a frame is the message object, so the symbolic `success` of the Login.Response survives the wire).

Honest statement of the technique for these clauses: the *data* (reconnect.auto, the server's login
verdict, the values of the server-derived state) is symbolic and flows through the real code; the
*position* of the fault (which loop step of the real login burst, which frame, idle, while the watchdog
sleeps), the kind of fault (close reason / stop / disconnect) and the environment outcomes are
enumerated injection points (`c.fresh_bool` flips per loop step, job parameters).
"""
from __future__ import annotations

import asyncio
import collections

from engine.symex import SBool, SInt
from engine.vloop import VLoop

import aioslsk.network.connection as conn_mod
from aioslsk.client import SoulSeekClient
from aioslsk.events import (
    ConnectionStateChangedEvent, ServerReconnectedEvent, SessionDestroyedEvent, SessionInitializedEvent)
from aioslsk.exceptions import ConnectionReadError, MessageDeserializationError
from aioslsk.network.connection import ServerConnection
from aioslsk.protocol.messages import AddUser, Login, ServerMessage
from aioslsk.protocol.primitives import UserStats
from aioslsk.settings import (
    CredentialsSettings, InterestsSettings, ListeningSettings, NetworkSettings, ReconnectSettings, RoomsSettings,
    SearchSendSettings, SearchSettings, ServerSettings, Settings, SharesSettings, UpnpSettings, UsersSettings)

OWN = 'me'
SERVER = ('srv.test', 2416)
RECONNECT_TIMEOUT = 10


class Loop(VLoop):
    def has_ready(self):
        self._move_due_timers()
        return any(not h._cancelled for h in self._ready)

    def jump(self):
        nt = self.next_timer()
        if nt is None:
            return False
        self._time = max(self._time, nt)
        return True


class Frame:
    """symbolic exploration: a frame on the wire is the message object itself"""
    __slots__ = ('message',)

    def __init__(self, message):
        self.message = message


class FramePipe:
    """server -> client direction while exploring: a queue of Frames with EOF / reset"""

    def __init__(self, loop):
        self.loop, self.q, self.waiter, self.eof, self.err = loop, collections.deque(), None, False, None

    def _wake(self):
        if self.waiter is not None and not self.waiter.done():
            self.waiter.set_result(None)

    def feed(self, msg):
        if self.eof or self.err is not None:
            return                      # the server end is gone: it sends nothing any more
        self.q.append(Frame(msg))
        self._wake()

    def feed_eof(self):
        if self.err is None:
            self.eof = True
        self._wake()

    def feed_error(self, exc):
        if not self.eof and self.err is None:
            self.err = exc
        self._wake()

    async def next(self):
        while True:
            if self.err is not None:        # like StreamReader: a reset wins over data that is still buffered
                raise self.err
            if self.q:
                return self.q.popleft()
            if self.eof:
                raise asyncio.IncompleteReadError(b'', 4)
            self.waiter = self.loop.create_future()
            try:
                await self.waiter
            finally:
                self.waiter = None


class BytePipe:
    """concrete replay: a real asyncio.StreamReader fed with really encoded messages"""

    def __init__(self, loop):
        self.reader = asyncio.StreamReader(loop=loop)
        self.gone = False

    def feed(self, msg):
        if not self.gone:
            self.reader.feed_data(msg.serialize())

    def feed_eof(self):
        if not self.gone:
            self.gone = True
            self.reader.feed_eof()

    def feed_error(self, exc):
        if not self.gone:
            self.gone = True
            self.reader.set_exception(exc)


class Writer:
    """client -> remote direction of one simulated TCP connection"""

    def __init__(self, side):
        self.side, self.closed, self.buf = side, False, b''

    def write(self, data):
        net = self.side.net
        if self.side.is_server:
            net.frames_written += 1
            if net.fail_write_at is not None and net.frames_written == net.fail_write_at:
                net.log('write fails', net.frames_written)
                raise ConnectionResetError('injected write error')
            if self.side.writes_fail:
                net.log('write fails', net.frames_written)
                raise ConnectionResetError('injected write error')
        if isinstance(data, Frame):
            self.side.on_frame(data.message)
            return
        self.buf += bytes(data)
        while len(self.buf) >= 4:
            n = int.from_bytes(self.buf[:4], 'little')
            if len(self.buf) < 4 + n:
                break
            frame, self.buf = self.buf[:4 + n], self.buf[4 + n:]
            if self.side.is_server:
                try:
                    self.side.on_frame(ServerMessage.deserialize_request(frame))
                except Exception as e:  # noqa
                    self.side.on_frame(('undecodable', frame, repr(e)))

    async def drain(self):
        return None

    def is_closing(self):
        return self.closed

    def close(self):
        if not self.closed:
            self.closed = True
            self.side.net.log('closed', self.side.name)
            # like a real transport: connection_lost() runs in a later loop iteration and feeds EOF to the reader
            self.side.net.loop.call_soon(self.side.pipe.feed_eof)

    async def wait_closed(self):
        return None

    def get_extra_info(self, name, default=None):
        return ('10.0.0.1', 40000) if name == 'sockname' else default


class Side:
    """the remote end of one simulated connection (the server, or a peer that says nothing)"""

    def __init__(self, net, name, is_server):
        self.net, self.name, self.is_server = net, name, is_server
        self.pipe = FramePipe(net.loop) if (net.stubbed and is_server) else BytePipe(net.loop)
        self.writer = Writer(self)
        self.received = []
        self.writes_fail = False
        self.opened_at = net.loop.time()

    @property
    def reader(self):
        return self.pipe if isinstance(self.pipe, FramePipe) else self.pipe.reader

    def on_frame(self, msg):
        self.received.append(msg)
        net = self.net
        if isinstance(msg, Login.Request):
            ok = net.login_verdict(sum(1 for s in net.server_sides for m in s.received if isinstance(m, Login.Request)) - 1)
            if isinstance(self.pipe, FramePipe):
                self.pipe.feed(Login.Response(ok, greeting='hello', ip='1.2.3.4', md5hash='0' * 32, privileged=False,
                                              reason='INVALIDPASS'))
            elif ok:
                self.pipe.feed(Login.Response(True, greeting='hello', ip='1.2.3.4', md5hash='0' * 32, privileged=False))
            else:
                self.pipe.feed(Login.Response(False, reason='INVALIDPASS'))
        elif isinstance(msg, AddUser.Request):
            self.pipe.feed(AddUser.Response(msg.username, True, status=2, user_stats=UserStats(100, 2, 30, 4),
                                            country_code='BE'))


class Listener:
    def __init__(self, net, port):
        self.net, self.port, self.serving = net, port, True

    def is_serving(self):
        return self.serving

    def close(self):
        self.serving = False

    async def wait_closed(self):
        return None


class _AsyncioShim:
    """stands for the `asyncio` module inside aioslsk.network.connection: everything is the real
    asyncio except the two calls that would touch sockets"""

    def __init__(self, net):
        self._net = net

    def __getattr__(self, name):
        return getattr(asyncio, name)

    def open_connection(self, host, port, **kw):
        return self._net.open_connection(host, port)

    def start_server(self, cb, host, port, **kw):
        return self._net.start_server(cb, host, port)


class SimNet:
    def __init__(self, loop, stubbed, login_verdict, server_plan=lambda i: 'ok', peer_mode='slow', peer_delay=5.0):
        self.loop, self.stubbed = loop, stubbed
        self.login_verdict = login_verdict       # n-th login on the server -> bool / SBool
        self.server_plan = server_plan           # n-th connect to the server -> 'ok' | 'refuse'
        self.peer_mode, self.peer_delay = peer_mode, peer_delay
        self.server_sides, self.peer_sides, self.listeners = [], [], []
        self.server_attempts = []                # virtual instants of connects to the server
        self.opens = []                          # (instant, what) of every connection that got established
        self.frames_written, self.fail_write_at = 0, None
        self.obfuscated_bind_fails = False
        self.events = []
        self._saved = None

    def log(self, *a):
        self.events.append((round(self.loop.time(), 3),) + a)

    # ---- asyncio.open_connection / start_server -------------------------------------------------
    async def open_connection(self, host, port):
        if (host, port) == SERVER:
            i = len(self.server_attempts)
            self.server_attempts.append(self.loop.time())
            outcome = self.server_plan(i)
            self.log('connect server', i, outcome)
            if outcome != 'ok':
                raise ConnectionRefusedError('injected')
            side = Side(self, f'server#{len(self.server_sides)}', True)
            self.server_sides.append(side)
            self.opens.append((self.loop.time(), side.name))
            return side.reader, side.writer
        self.log('connect peer', host, port, self.peer_mode)
        if self.peer_mode == 'refuse':
            raise ConnectionRefusedError('injected')
        await asyncio.sleep(self.peer_delay)     # a slow SYN/ACK: established after peer_delay unless cancelled
        side = Side(self, f'peer {host}:{port}', False)
        self.peer_sides.append(side)
        self.opens.append((self.loop.time(), side.name))
        return side.reader, side.writer

    async def start_server(self, cb, host, port):
        owner = getattr(cb, '__self__', None)
        if self.obfuscated_bind_fails and getattr(owner, 'obfuscated', False):
            raise OSError('injected: address in use')
        lst = Listener(self, port)
        self.listeners.append(lst)
        return lst

    def __enter__(self):
        self._saved = conn_mod.__dict__['asyncio']
        conn_mod.__dict__['asyncio'] = _AsyncioShim(self)
        return self

    def __exit__(self, *a):
        conn_mod.__dict__['asyncio'] = self._saved

    # ---- observations -------------------------------------------------------------------------------
    def open_connections(self):
        return [s.name for s in self.server_sides + self.peer_sides if not s.writer.closed] + \
               [f'listener {l.port}' for l in self.listeners if l.serving]

    @property
    def current(self):
        return self.server_sides[-1] if self.server_sides else None


def put(model, field, value):
    if isinstance(value, (SBool, SInt)):
        model.__dict__[field] = value
    else:
        setattr(model, field, value)


class Env:
    """client + simulated network + event recorder"""

    def __init__(self, c, loop, reconnect_auto, login_verdict, server_plan=lambda i: 'ok', peer_mode='slow',
                 search_timeout=0, stubbed=None, settings=None):
        self.c, self.loop = c, loop
        self.stubbed = c.symbolic if stubbed is None else stubbed
        self.net = SimNet(loop, self.stubbed, login_verdict, server_plan, peer_mode)
        s = settings if settings is not None else Settings(
            credentials=CredentialsSettings(username=OWN, password='pw'),
            network=NetworkSettings(
                server=ServerSettings(hostname=SERVER[0], port=SERVER[1],
                                      reconnect=ReconnectSettings(auto=False, timeout=RECONNECT_TIMEOUT)),
                listening=ListeningSettings(port=60000, obfuscated_port=60001),
                upnp=UpnpSettings(enabled=False)),
            users=UsersSettings(friends={'alice'}),
            rooms=RoomsSettings(favorites={'r1'}),
            interests=InterestsSettings(liked={'jazz'}, hated={'pop'}),
            searches=SearchSettings(send=SearchSendSettings(request_timeout=search_timeout)),
            shares=SharesSettings(scan_on_start=False, download='/tmp/c16-dl'),
        )
        if settings is not None:
            # settings of the caller (props/c16.build_settings): point them at the simulated server, no UPnP sockets
            s.network.server.hostname, s.network.server.port = SERVER
            s.network.server.reconnect.timeout = RECONNECT_TIMEOUT
            s.network.upnp.enabled = False
        put(s.network.server.reconnect, 'auto', reconnect_auto)
        self.settings = s
        self.client = loop.call(SoulSeekClient, s)
        self.conn = self.client.network.server_connection
        self.initialized, self.destroyed, self.states, self.reconnected = [], [], [], []
        ev = self.client.events
        # first to hear about a new session (the delivery of the event can be cut short when the task that
        # runs login() is cancelled), last to hear about its destruction
        ev.register(SessionInitializedEvent, self._on_init, priority=-1)
        ev.register(SessionDestroyedEvent, self._on_destroyed, priority=1000)
        ev.register(ConnectionStateChangedEvent, self._on_state)
        ev.register(ServerReconnectedEvent, self._on_reconnected)
        if self.stubbed:
            conn = self.conn
            conn.encode_message_data = lambda m: Frame(m)
            conn.decode_message_data = self._decode
            conn._read_message = self._read_message
        self.harness_tasks = []

    # ---- recorder ------------------------------------------------------------------------------------
    def _on_init(self, e):
        self.initialized.append(e.session)
        self.net.log('SessionInitializedEvent')

    def _on_destroyed(self, e):
        self.destroyed.append(e.session)
        self.net.log('SessionDestroyedEvent')

    def _on_state(self, e):
        if isinstance(e.connection, ServerConnection):
            self.states.append((e.state.name, e.close_reason.name))
            self.net.log('server', e.state.name, e.close_reason.name)

    def _on_reconnected(self, e):
        self.reconnected.append(self.loop.time())

    # ---- codec bypass (symbolic exploration only) ----------------------------------------------------
    @staticmethod
    def _decode(frame):
        if not isinstance(frame, Frame):
            raise MessageDeserializationError(b'', 'failed to deserialize message')
        return frame.message

    async def _read_message(self):
        r = self.conn._reader
        if not r:
            raise ConnectionReadError('cannot read message, connection is not open')
        return await r.next()

    # ---- driving -------------------------------------------------------------------------------------
    def spawn(self, coro, name):
        t = self.loop.spawn(coro, name='harness-' + name)
        self.harness_tasks.append(t)
        return t

    def library_tasks(self):
        return [t for t in self.loop.pending_tasks() if t not in self.harness_tasks]

    def settle(self, dt=0.0):
        if dt:
            self.loop.advance(dt)
        else:
            self.loop.run_ready()
