"""z3-backed container / token proxies used by props/c19.py.

The replica kept by RoomManager / UserManager is made of python sets, lists and
dicts over a *finite universe of names*.  These proxies carry one symbolic
membership bit (or multiplicity, or value) per name, so that ONE execution of a
real handler covers every pre-state at once:

  * mutations the code performs (`add`, `discard`, `append`, `d[k] = v`, ...) are
    recorded without forking;
  * questions the code asks (`x in s`, `del d[k]` on a possibly absent key,
    iteration, `len`, `==`) fork through engine.symex exactly like a branch on
    an SBool does.

They subclass nothing (a proxy that leaks into C code fails loudly).  An
operation the proxy does not implement raises ProxyGap, which the harness turns
into a harness error - never into a verdict.  In concrete replay the harness
builds the real `set` / `list` / `dict` instead, so nothing in here is part of a
reported counterexample.
"""
from __future__ import annotations

import z3

from engine import symex
from engine.symex import SBool, SInt, HarnessError


class ProxyGap(HarnessError):
    """the code under test used a container operation the proxy does not model"""


def plain(v):
    """collapse constant proxies to python values (keeps later queries trivial)"""
    if isinstance(v, SBool):
        if z3.is_true(v.e):
            return True
        if z3.is_false(v.e):
            return False
    elif isinstance(v, SInt):
        s = z3.simplify(v.e)
        if z3.is_int_value(s):
            return s.as_long()
    return v


def b_and(*a):
    if all(isinstance(x, bool) for x in a):
        return all(a)
    return plain(symex.And(*a))


def b_or(*a):
    if all(isinstance(x, bool) for x in a):
        return any(a)
    return plain(symex.Or(*a))


def b_not(a):
    if isinstance(a, bool):
        return not a
    return plain(symex.Not(a))


def b_imp(a, b):
    return b_or(b_not(a), b)


def b_ite(c, a, b):
    if isinstance(c, bool):
        return a if c else b
    return plain(symex.ite(c, a, b))


def eqv(a, b):
    """equality of two values each of which may be None / python / proxy; never forks"""
    if a is None or b is None:
        return a is None and b is None
    r = (a == b)
    if isinstance(r, (bool, SBool)):
        return plain(r)
    return bool(r)


def _gap(cls, name):
    raise ProxyGap(f'{cls}.{name} is not modelled by the container proxy (engine/c19sym.py)')


class _Proxy:
    def __getattr__(self, name):
        _gap(type(self).__name__, name)

    def __reduce_ex__(self, proto):   # copy / pickle of a proxy container is not modelled
        _gap(type(self).__name__, '__reduce_ex__')


# --------------------------------------------------------------------------------------
# set[str]
# --------------------------------------------------------------------------------------

class SymSet(_Proxy):
    """set over hashable concrete keys; bits[key] is bool | SBool (missing key = absent)"""

    def __init__(self, bits=None):
        self.bits = dict(bits or {})

    # -- helpers -------------------------------------------------------------------
    def bit(self, k):
        return self.bits.get(k, False)

    @staticmethod
    def _bit_of(other, k):
        if isinstance(other, SymSet):
            return other.bit(k)
        return k in other

    @staticmethod
    def _keys_of(other):
        if isinstance(other, SymSet):
            return list(other.bits)
        return list(other)

    def _materialise(self):
        return [k for k in list(self.bits) if bool(self.bits[k])]

    # -- mutation (never forks) -------------------------------------------------------
    def add(self, k):
        hash(k)
        self.bits[k] = True

    def discard(self, k):
        hash(k)
        if k in self.bits:
            self.bits[k] = False

    def remove(self, k):
        if not bool(self.bit(k)):
            raise KeyError(k)
        self.bits[k] = False

    def clear(self):
        for k in self.bits:
            self.bits[k] = False

    def update(self, *others):
        for o in others:
            if isinstance(o, SymSet):
                for k in o.bits:
                    self.bits[k] = b_or(self.bit(k), o.bits[k])
            else:
                for k in o:
                    self.add(k)

    def difference_update(self, *others):
        for o in others:
            for k in self._keys_of(o):
                if k in self.bits:
                    self.bits[k] = b_and(self.bits[k], b_not(self._bit_of(o, k)))

    def intersection_update(self, *others):
        for o in others:
            for k in self.bits:
                self.bits[k] = b_and(self.bits[k], self._bit_of(o, k))

    def symmetric_difference_update(self, o):
        for k in set(self.bits) | set(self._keys_of(o)):
            a, b = self.bit(k), self._bit_of(o, k)
            self.bits[k] = b_or(b_and(a, b_not(b)), b_and(b_not(a), b))

    def pop(self):
        for k in self._materialise():
            self.bits[k] = False
            return k
        raise KeyError('pop from an empty set')

    # -- new sets ----------------------------------------------------------------------
    def copy(self):
        return SymSet(self.bits)

    def union(self, *o):
        r = self.copy()
        r.update(*o)
        return r

    def difference(self, *o):
        r = self.copy()
        r.difference_update(*o)
        return r

    def intersection(self, *o):
        r = self.copy()
        r.intersection_update(*o)
        return r

    def symmetric_difference(self, o):
        r = self.copy()
        r.symmetric_difference_update(o)
        return r

    def __or__(self, o):
        return self.union(o)

    __ror__ = __or__

    def __and__(self, o):
        return self.intersection(o)

    __rand__ = __and__

    def __sub__(self, o):
        return self.difference(o)

    def __rsub__(self, o):
        return SymSet({k: b_not(self.bit(k)) for k in o})

    def __xor__(self, o):
        return self.symmetric_difference(o)

    __rxor__ = __xor__

    def __ior__(self, o):
        self.update(o)
        return self

    def __iand__(self, o):
        self.intersection_update(o)
        return self

    def __isub__(self, o):
        self.difference_update(o)
        return self

    def __ixor__(self, o):
        self.symmetric_difference_update(o)
        return self

    # -- questions (fork when the answer depends on a symbolic bit) ----------------------
    def __contains__(self, k):
        hash(k)
        return self.bit(k)

    def __iter__(self):
        return iter(self._materialise())

    def __len__(self):
        n = 0
        for b in self.bits.values():
            n = n + b_ite(b, 1, 0)
        return n if isinstance(n, int) else symex.ctx().concretize(n)

    def __bool__(self):
        return bool(b_or(*self.bits.values())) if self.bits else False

    def issubset(self, o):
        return b_and(*[b_imp(b, self._bit_of(o, k)) for k, b in self.bits.items()])

    __le__ = issubset

    def issuperset(self, o):
        return b_and(*[b_imp(self._bit_of(o, k), self.bit(k)) for k in self._keys_of(o)])

    __ge__ = issuperset

    def isdisjoint(self, o):
        return b_and(*[b_not(b_and(b, self._bit_of(o, k))) for k, b in self.bits.items()])

    def __eq__(self, o):
        if not isinstance(o, (SymSet, set, frozenset)):
            return False
        keys = list(dict.fromkeys(list(self.bits) + self._keys_of(o)))
        return b_and(*[eqv(self.bit(k), self._bit_of(o, k)) for k in keys])

    def __ne__(self, o):
        return b_not(self.__eq__(o))

    __hash__ = None

    def __repr__(self):
        return '<SymSet>'


# --------------------------------------------------------------------------------------
# list of shared objects with symbolic multiplicity (order is not modelled)
# --------------------------------------------------------------------------------------

class SymObjList(_Proxy):
    """list whose elements are drawn from known objects `objs` (compared by identity, as
    list.__contains__ does first) each with multiplicity counts[i] (int | SInt >= 0).
    Objects that are not among `objs` are kept concretely in `tail`.  Element ORDER is not
    represented; operations that depend on it materialise the list in the order of `objs`."""

    def __init__(self, objs, counts):
        self.objs = list(objs)
        self.counts = list(counts)
        self.tail = []

    def _idx(self, x):
        for i, o in enumerate(self.objs):
            if o is x:
                return i
        return None

    def _materialise(self):
        out = []
        for i, o in enumerate(self.objs):
            n = self.counts[i]
            if not isinstance(n, int):
                n = symex.ctx().concretize(n)
                self.counts[i] = n
            out.extend([o] * n)
        out.extend(self.tail)
        return out

    def _load(self, lst):
        self.counts = [0] * len(self.objs)
        self.tail = []
        for x in lst:
            self.append(x)

    # -- mutation -------------------------------------------------------------------------
    def append(self, x):
        i = self._idx(x)
        if i is None:
            self.tail.append(x)
        else:
            self.counts[i] = plain(self.counts[i] + 1)

    def insert(self, pos, x):
        self.append(x)

    def extend(self, it):
        for x in list(it):
            self.append(x)

    def __iadd__(self, it):
        self.extend(it)
        return self

    def remove(self, x):
        i = self._idx(x)
        if i is not None:
            if bool(self.counts[i] > 0):
                self.counts[i] = plain(self.counts[i] - 1)
                return
            raise ValueError('list.remove(x): x not in list')
        m = self._materialise()
        m.remove(x)          # list semantics (==), raises ValueError
        self._load(m)

    def clear(self):
        self.counts = [0] * len(self.objs)
        self.tail = []

    def pop(self, *a):
        m = self._materialise()
        r = m.pop(*a)
        self._load(m)
        return r

    def sort(self, *a, **k):
        pass

    def reverse(self):
        pass

    # -- questions ----------------------------------------------------------------------------
    def __contains__(self, x):
        i = self._idx(x)
        if i is not None:
            return plain(self.counts[i] > 0) if not isinstance(self.counts[i], int) else self.counts[i] > 0
        return x in self._materialise()

    def count(self, x):
        i = self._idx(x)
        if i is not None:
            return self.counts[i]
        return self._materialise().count(x)

    def index(self, x, *a):
        return self._materialise().index(x, *a)

    def __iter__(self):
        return iter(self._materialise())

    def __reversed__(self):
        return reversed(self._materialise())

    def __len__(self):
        n = len(self.tail)
        for cnt in self.counts:
            n = n + cnt
        n = plain(n)
        return n if isinstance(n, int) else symex.ctx().concretize(n)

    def __bool__(self):
        if self.tail:
            return True
        return bool(b_or(*[cnt > 0 for cnt in self.counts])) if self.counts else False

    def __getitem__(self, i):
        return self._materialise()[i]

    def copy(self):
        r = SymObjList(self.objs, self.counts)
        r.tail = list(self.tail)
        return r

    def __add__(self, o):
        return self._materialise() + list(o)

    def __radd__(self, o):
        return list(o) + self._materialise()

    def __eq__(self, o):
        if not isinstance(o, (list, SymObjList)):
            return False
        return self._materialise() == list(o)

    def __ne__(self, o):
        return not self.__eq__(o)

    __hash__ = None

    def __repr__(self):
        return '<SymObjList>'


# --------------------------------------------------------------------------------------
# dict[str, value] with symbolic presence
# --------------------------------------------------------------------------------------

_NO = object()


class SymMap(_Proxy):
    """dict over concrete keys; present[k] is bool | SBool, value[k] any (proxy) value"""

    def __init__(self, present=None, value=None):
        self.present = dict(present or {})
        self.value = dict(value or {})

    def has(self, k):
        return self.present.get(k, False)

    def _keys(self):
        return [k for k in list(self.present) if bool(self.present[k])]

    # -- mutation ---------------------------------------------------------------------------
    def __setitem__(self, k, v):
        hash(k)
        self.present[k] = True
        self.value[k] = v

    def __delitem__(self, k):
        hash(k)
        if not bool(self.has(k)):
            raise KeyError(k)
        self.present[k] = False

    def pop(self, k, d=_NO):
        if bool(self.has(k)):
            self.present[k] = False
            return self.value[k]
        if d is _NO:
            raise KeyError(k)
        return d

    def setdefault(self, k, d=None):
        if bool(self.has(k)):
            return self.value[k]
        self[k] = d
        return d

    def update(self, other=(), **kw):
        if isinstance(other, SymMap):
            for k in other.present:
                p = other.present[k]
                if isinstance(p, bool):
                    if p:
                        self[k] = other.value[k]
                elif bool(p):
                    self[k] = other.value[k]
        elif hasattr(other, 'keys'):
            for k in other.keys():
                self[k] = other[k]
        else:
            for k, v in other:
                self[k] = v
        for k, v in kw.items():
            self[k] = v

    def clear(self):
        for k in self.present:
            self.present[k] = False

    # -- questions ----------------------------------------------------------------------------
    def __contains__(self, k):
        hash(k)
        return self.has(k)

    def __getitem__(self, k):
        if bool(self.has(k)):
            return self.value[k]
        raise KeyError(k)

    def get(self, k, d=None):
        if bool(self.has(k)):
            return self.value[k]
        return d

    def keys(self):
        return self._keys()

    def values(self):
        return [self.value[k] for k in self._keys()]

    def items(self):
        return [(k, self.value[k]) for k in self._keys()]

    def __iter__(self):
        return iter(self._keys())

    def __len__(self):
        n = 0
        for p in self.present.values():
            n = n + b_ite(p, 1, 0)
        return n if isinstance(n, int) else symex.ctx().concretize(n)

    def __bool__(self):
        return bool(b_or(*self.present.values())) if self.present else False

    def copy(self):
        return SymMap(self.present, self.value)

    def __eq__(self, o):
        if isinstance(o, SymMap):
            o = dict(o.items())
        if not isinstance(o, dict):
            return False
        mine = dict(self.items())
        if set(mine) != set(o):
            return False
        return b_and(*[eqv(mine[k], o[k]) for k in mine])

    def __ne__(self, o):
        return b_not(self.__eq__(o))

    __hash__ = None

    def __repr__(self):
        return '<SymMap>'


# --------------------------------------------------------------------------------------
# scalars
# --------------------------------------------------------------------------------------

class SFlag:
    """enum.IntFlag value as a bit-vector (BlockingFlag).  `proxy & Flag.member` is answered
    here because the proxy is the left operand in UsersSettings.is_blocked; `Flag & proxy`
    reaches __rand__ because int.__and__ returns NotImplemented for a foreign operand."""
    __slots__ = ('bv', 'width')

    def __init__(self, bv, width):
        self.bv = bv
        self.width = width

    def _lift(self, o):
        if isinstance(o, SFlag):
            return o.bv
        return z3.BitVecVal(int(o), self.width)

    def __and__(self, o):
        return SFlag(self.bv & self._lift(o), self.width)

    __rand__ = __and__

    def __or__(self, o):
        return SFlag(self.bv | self._lift(o), self.width)

    __ror__ = __or__

    def __xor__(self, o):
        return SFlag(self.bv ^ self._lift(o), self.width)

    __rxor__ = __xor__

    def __invert__(self):
        return SFlag(~self.bv, self.width)

    def __bool__(self):
        return bool(SBool(self.bv != 0))

    def __eq__(self, o):
        try:
            return SBool(self.bv == self._lift(o))
        except Exception:  # noqa
            return False

    def __ne__(self, o):
        r = self.__eq__(o)
        return ~r if isinstance(r, SBool) else True

    def __contains__(self, o):        # `member in flags`
        m = self._lift(o)
        return SBool(self.bv & m == m)

    def has(self, member) -> SBool:
        """non-forking oracle accessor"""
        m = self._lift(member)
        return SBool(self.bv & m != 0)

    def __hash__(self):
        return hash(symex.ctx().concretize(z3.BV2Int(self.bv)))

    def __int__(self):
        return symex.ctx().concretize(z3.BV2Int(self.bv))

    __index__ = __int__

    def __repr__(self):
        return '<SFlag>'

    __str__ = __repr__

    def __format__(self, spec):
        return '<SFlag>'

    def __deepcopy__(self, memo):
        return self


class SName:
    """Optional[str] drawn from a finite list of names: e == 0 is None, e == i + 1 is names[i]"""
    __slots__ = ('e', 'names')

    def __init__(self, e, names):
        self.e = e if isinstance(e, SInt) else SInt(e)
        self.names = tuple(names)

    def code_of(self, o):
        if o is None:
            return 0
        if isinstance(o, str):
            return self.names.index(o) + 1 if o in self.names else -1
        return None

    def __eq__(self, o):
        if isinstance(o, SName):
            return self.e == o.e
        k = self.code_of(o)
        if k is None or k < 0:
            return False
        return self.e == k

    def __ne__(self, o):
        r = self.__eq__(o)
        return ~r if isinstance(r, SBool) else (not r)

    def _concrete(self):
        v = symex.ctx().concretize(self.e)
        return None if v == 0 else self.names[v - 1]

    def __hash__(self):
        return hash(self._concrete())

    def __bool__(self):
        return bool(self.e != 0)      # a name is a non-empty string

    def __repr__(self):
        return '<SName>'

    __str__ = __repr__

    def __format__(self, spec):
        return '<SName>'

    def __deepcopy__(self, memo):
        return self


class SEnum:
    """opaque member of an Enum whose .value is a symbolic int (only stored / compared)"""
    __slots__ = ('value', 'cls')

    def __init__(self, value, cls):
        self.value = value
        self.cls = cls

    @property
    def name(self):
        return '<SEnum>'

    def __eq__(self, o):
        if isinstance(o, SEnum):
            return self.value == o.value
        if isinstance(o, self.cls):
            return self.value == o.value
        return False

    def __ne__(self, o):
        r = self.__eq__(o)
        return ~r if isinstance(r, SBool) else (not r)

    def __hash__(self):
        return hash(self.cls(symex.ctx().concretize(self.value)))

    def __repr__(self):
        return '<SEnum>'

    __str__ = __repr__

    def __format__(self, spec):
        return '<SEnum>'

    def __deepcopy__(self, memo):
        return self


# --------------------------------------------------------------------------------------
# validation of the proxies against the real containers (run by props/c19.py:prelude)
# --------------------------------------------------------------------------------------

KEYS = ['a', 'b', 'c']
SET_OPS = [('add', 'a'), ('add', 'x'), ('discard', 'b'), ('discard', 'x'), ('remove', 'c'), ('update', ['a', 'c']),
           ('difference_update', ['b', 'c']), ('intersection_update', ['a', 'b']), ('clear',), ('ior', ['b']),
           ('isub', ['a']), ('pop',)]


def _apply_set(s, op):
    name, args = op[0], op[1:]
    try:
        if name == 'ior':
            s |= set(args[0])
        elif name == 'isub':
            s -= set(args[0])
        elif name == 'pop':
            k = s.pop()
            return ('ok', None)      # which element is popped is unspecified
        else:
            getattr(s, name)(*args)
        return ('ok', None)
    except KeyError as e:
        return ('KeyError', None)


def v_set(c, ops):
    bits = {k: c.fresh_bool(k) for k in KEYS}
    sym = SymSet(bits)
    real = {k for k in KEYS if bool(bits[k])}
    for op in ops:
        if op[0] == 'pop':
            r1 = _apply_set(sym, op)
            sym_now = {k for k in list(sym.bits) if bool(sym.bits[k])}
            ok = (r1[0] == 'KeyError' and not real) or (r1[0] == 'ok' and len(real - sym_now) == 1 and sym_now <= real)
            c.check(ok, 'set_pop')
            real = sym_now
            continue
        r1, r2 = _apply_set(sym, op), _apply_set(real, op)
        c.check(r1 == r2, 'set_raises_alike', info=[ops])
    for k in KEYS + ['x']:
        c.check(eqv(sym.bit(k), k in real), 'set_membership', info=[ops, k])
        c.check(bool(k in sym) == (k in real), 'set_contains')
    c.check(len(sym) == len(real), 'set_len')
    c.check(set(sym) == real and sorted(sym) == sorted(real), 'set_iter')
    c.check(bool(sym) == bool(real), 'set_bool')
    c.check(bool(sym == real) and not bool(sym != real), 'set_eq')
    c.check(bool((sym | {'x'}) == (real | {'x'})) and bool((sym - {'a'}) == (real - {'a'})) and
            bool(({'a', 'x'} - sym) == ({'a', 'x'} - real)) and bool((sym & {'a', 'b'}) == (real & {'a', 'b'})), 'set_algebra')
    c.check(bool(sym.issubset({'a', 'b'})) == real.issubset({'a', 'b'}) and
            bool(sym.issuperset({'a'})) == real.issuperset({'a'}) and
            bool(sym.isdisjoint({'c'})) == real.isdisjoint({'c'}), 'set_relations')
    c.reach('v_set')


class _O:
    def __init__(self, n):
        self.name = n

    def __eq__(self, o):
        return isinstance(o, _O) and o.name == self.name

    __hash__ = None


LIST_OPS = [('append', 0), ('append', 2), ('remove', 0), ('remove', 1), ('remove', 2), ('remove', 3), ('clear',),
            ('extend', [1, 2]), ('pop',)]


def v_list(c, ops):
    objs = [_O('p'), _O('q'), _O('z'), _O('p')]   # 0,1 known; 2 foreign; 3 foreign but == objs[0]
    counts = [c.fresh_int('n0', 0, 2), c.fresh_int('n1', 0, 1)]
    sym = SymObjList(objs[:2], counts)
    real = [objs[0]] * int(counts[0]) + [objs[1]] * int(counts[1])

    def ap(lst, op):
        try:
            if op[0] in ('append', 'remove'):
                getattr(lst, op[0])(objs[op[1]])
            elif op[0] == 'extend':
                lst.extend([objs[i] for i in op[1]])
            elif op[0] == 'pop':
                lst.pop()
            else:
                getattr(lst, op[0])()
            return 'ok'
        except (ValueError, IndexError) as e:
            return type(e).__name__
    for op in ops:
        if op == ('remove', 3) or op[0] == 'pop':
            # order dependent: only raising-alike and length are comparable
            a, b = ap(sym, op), ap(real, op)
            c.check(a == b, 'list_raises_alike', info=[ops])
            c.check(len(sym) == len(real), 'list_len')
            real = list(sym)
            continue
        c.check(ap(sym, op) == ap(real, op), 'list_raises_alike', info=[ops])
    for i in range(3):
        c.check(bool(objs[i] in sym) == (objs[i] in real), 'list_contains', info=[ops, i])
        c.check(eqv(sym.count(objs[i]), real.count(objs[i])), 'list_count', info=[ops, i])
    c.check(len(sym) == len(real) and bool(sym) == bool(real), 'list_len')
    c.check(sorted(id(x) for x in sym) == sorted(id(x) for x in real), 'list_iter')
    c.reach('v_list')


MAP_OPS = [('set', 'a', 7), ('set', 'x', 8), ('del', 'a'), ('del', 'b'), ('del', 'x'), ('pop', 'b'), ('popd', 'c'),
           ('update', {'b': 1, 'x': 2}), ('clear',), ('setdefault', 'c', 5)]


def v_map(c, ops):
    present = {k: c.fresh_bool('p' + k) for k in KEYS}
    value = {k: c.fresh_int('v' + k, 0, 3) for k in KEYS}
    sym = SymMap(present, value)
    real = {k: value[k] for k in KEYS if bool(present[k])}

    def ap(d, op):
        try:
            if op[0] == 'set':
                d[op[1]] = op[2]
            elif op[0] == 'del':
                del d[op[1]]
            elif op[0] == 'pop':
                d.pop(op[1])
            elif op[0] == 'popd':
                d.pop(op[1], None)
            elif op[0] == 'update':
                d.update(op[1])
            elif op[0] == 'setdefault':
                d.setdefault(op[1], op[2])
            else:
                d.clear()
            return 'ok'
        except KeyError:
            return 'KeyError'
    for op in ops:
        c.check(ap(sym, op) == ap(real, op), 'map_raises_alike', info=[ops])
    for k in KEYS + ['x']:
        c.check(eqv(sym.has(k), k in real), 'map_membership', info=[ops, k])
        c.check(bool(k in sym) == (k in real), 'map_contains')
        if k in real:
            c.check(eqv(sym[k], real[k]) and eqv(sym.get(k), real[k]), 'map_value', info=[ops, k])
        else:
            c.check(sym.get(k, 'dflt') == 'dflt', 'map_value')
    c.check(len(sym) == len(real) and bool(sym) == bool(real), 'map_len')
    c.check(sorted(sym.keys()) == sorted(real.keys()) and sorted(sym) == sorted(real) and
            sorted(k for k, _ in sym.items()) == sorted(real), 'map_iter')
    c.check(bool(sym == real), 'map_eq')
    c.reach('v_map')


def v_flag(c, BlockingFlag=None, hi=0b101000):
    """operator dispatch and polarity of SFlag against the real IntFlag; the two message bits
    are free, the four other bits are pinned to `hi` (keeps the validation at 4 paths)"""
    bv = c.fresh_bv('flags', 6)
    c.assume(SBool((bv & 0b111100) == hi))
    f = SFlag(bv, 6)
    members = [m for m in BlockingFlag if m.name]
    got = {m.name: (bool(f & m), bool(m & f), bool(f.has(m))) for m in members}
    real = BlockingFlag(int(f))
    c.check(all(got[m.name] == (bool(real & m),) * 3 for m in members), 'flag_and')
    c.check(bool(f == real) and bool(f) == bool(real) and bool(f != BlockingFlag.NONE) == (real != BlockingFlag.NONE),
            'flag_eq')
    c.reach('v_flag')


def v_name(c):
    names = ['me0', 'u1', 'u2']
    e = c.fresh_int('owner', 0, 3)
    n = SName(e, names)
    outcomes = [bool(n == 'me0'), bool(n == 'u2'), bool(n == None), bool(n != 'u1'), bool(n == 'zz'), bool(n)]  # noqa
    v = int(e)
    real = None if v == 0 else names[v - 1]
    c.check(outcomes == [real == 'me0', real == 'u2', real is None, real != 'u1', False, bool(real)], 'name_eq')
    c.check(hash(n) == hash(real) and (n in {real}), 'name_hash')
    c.reach('v_name')


def validate(depth=1, flag_enum=None, extra_pairs=True):
    """translator validation of the proxies: every operation (sequences up to `depth`, plus a
    fixed list of pairs) applied to a proxy with symbolic content and to the real container
    obtained by forking over that content must agree - raising alike, membership, len,
    iteration, algebra.  Decided by the engine itself over all contents.  Raises on mismatch."""
    import itertools
    runs = []
    for k in range(depth + 1):
        for ops in itertools.product(SET_OPS, repeat=k):
            runs.append((v_set, {'ops': list(ops)}, 'v_set'))
        for ops in itertools.product(LIST_OPS, repeat=k):
            runs.append((v_list, {'ops': list(ops)}, 'v_list'))
        for ops in itertools.product(MAP_OPS, repeat=k):
            runs.append((v_map, {'ops': list(ops)}, 'v_map'))
    if extra_pairs and depth < 2:
        runs += [(v_set, {'ops': [('discard', 'b'), ('add', 'b')]}, 'v_set'),
                 (v_set, {'ops': [('add', 'a'), ('remove', 'a')]}, 'v_set'),
                 (v_set, {'ops': [('clear',), ('update', ['a', 'c'])]}, 'v_set'),
                 (v_list, {'ops': [('append', 0), ('remove', 0)]}, 'v_list'),
                 (v_list, {'ops': [('remove', 0), ('remove', 0)]}, 'v_list'),
                 (v_list, {'ops': [('clear',), ('append', 1)]}, 'v_list'),
                 (v_map, {'ops': [('set', 'a', 7), ('del', 'a')]}, 'v_map'),
                 (v_map, {'ops': [('del', 'b'), ('del', 'b')]}, 'v_map'),
                 (v_map, {'ops': [('clear',), ('set', 'x', 8)]}, 'v_map')]
    if flag_enum is not None:
        runs.append((v_flag, {'BlockingFlag': flag_enum, 'hi': 0b101000}, 'v_flag'))
        runs.append((v_flag, {'BlockingFlag': flag_enum, 'hi': 0}, 'v_flag'))
    runs.append((v_name, {}, 'v_name'))
    tot = symex.Stats()
    for fn, params, lab in runs:
        ex = symex.Explorer(fn, params, lab).run()
        if ex.failures or not ex.exhausted or ex.stats.reach.get(lab, 0) == 0 or ex.stats.inconclusive:
            f = ex.failures[0] if ex.failures else None
            raise HarnessError(f'container proxy disagrees with the real container: {lab} {params} '
                               f'{f.label if f else "not exhausted"} {f.info if f else ""} {f.model if f else ""}')
        tot.merge(ex.stats)
    return {'runs': len(runs), 'paths': tot.paths, 'obligations': tot.obligations, 'discharged': tot.discharged}
