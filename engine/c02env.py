"""c02env: stream fakes and monitors for C02 (hostile bytes).  Used together with engine/codec.py.

* FakeReader / FakeWriter: byte-accurate stand-ins for asyncio.StreamReader / StreamWriter.  The reader's buffer
  holds byte *terms* (python int or z3 BV8), data is fed by the harness in scripted segments, `readexactly(n)`
  accepts a symbolic n (SWord read from hostile header bytes): it forks on `n <= available`; when the bytes are
  there n is concretised (0..available), otherwise the call waits for the next segment / raises
  IncompleteReadError at EOF exactly like asyncio.
* streams(): replaces asyncio.open_connection / asyncio.start_server (attributes of the asyncio module the aioslsk
  connection module calls) by factories handing out the fakes; FakeServer.incoming() runs the real
  ListeningConnection.accept callback in a task the way StreamReaderProtocol does (exception -> loop handler).
* termination monitor: `range` inside aioslsk.protocol.primitives counts the iterations of every array loop; a
  loop driven by a count read from the wire that completes more iterations than there are bytes in the frame
  (each element must consume >= 1 byte or raise) signals Unbounded.  Symbolic counts fork lazily like
  codec.sym_range.
* reference functions written independently of aioslsk: little-endian value, obfuscation keystream, frame length.
"""
from __future__ import annotations

import asyncio
import contextlib

import z3

from engine import symex, codec
from engine.codec import SBytes, SWord, Box
from engine.symex import SInt

_RANGE = range


# --------------------------------------------------------------------------------------------------
# streams
# --------------------------------------------------------------------------------------------------

class FakeReader:
    """asyncio.StreamReader stand-in (readexactly / read / at_eof / feed_data / feed_eof / exception)"""

    def __init__(self, symbolic: bool):
        self.symbolic = symbolic
        self.buf: list = []        # byte terms not yet consumed
        self.consumed = 0          # absolute stream position of buf[0]
        self.fed = 0
        self.eof = False
        self._waiter = None
        self._exception = None
        self.reads: list = []      # (position before, n requested (concrete or None), n returned)

    # -- producer side (harness) -------------------------------------------------------------------
    def feed_data(self, data):
        t = codec.terms_of(data)
        if not t:
            return
        self.buf.extend(t)
        self.fed += len(t)
        self._wake()

    def feed_eof(self):
        self.eof = True
        self._wake()

    def set_exception(self, exc):
        self._exception = exc
        self._wake()

    def _wake(self):
        w, self._waiter = self._waiter, None
        if w is not None and not w.done():
            w.set_result(None)

    # -- consumer side (aioslsk) -------------------------------------------------------------------
    def at_eof(self):
        return self.eof and not self.buf

    def exception(self):
        return self._exception

    async def _wait(self):
        if self._waiter is not None:
            raise RuntimeError('readexactly() called while another coroutine is already waiting for incoming data')
        self._waiter = asyncio.get_running_loop().create_future()
        try:
            await self._waiter
        finally:
            self._waiter = None

    def _out(self, terms):
        if self.symbolic:
            return SBytes(terms)
        return bytes(terms)

    def _take(self, n):
        out, self.buf = self.buf[:n], self.buf[n:]
        self.consumed += n
        return self._out(out)

    async def readexactly(self, n):
        if isinstance(n, Box):
            n = n.v
        if self._exception is not None:
            raise self._exception
        start = self.consumed
        if isinstance(n, (SWord, SInt)):
            # hostile (symbolic) length: fork on "all requested bytes are buffered"
            if bool(n < 0):
                raise ValueError('readexactly size can not be less than zero')
            while True:
                avail = len(self.buf)
                if bool(n <= avail):
                    n = n.concretize(limit=avail + 2) if isinstance(n, SWord) else symex.ctx().concretize(n, limit=avail + 2)
                    break
                if self.eof:
                    partial = self._take(avail)
                    self.reads.append((start, None, avail))
                    raise asyncio.IncompleteReadError(partial, n)
                await self._wait()
                if self._exception is not None:
                    raise self._exception
        else:
            if n < 0:
                raise ValueError('readexactly size can not be less than zero')
            while len(self.buf) < n:
                if self.eof:
                    partial = self._take(len(self.buf))
                    self.reads.append((start, n, len(partial)))
                    raise asyncio.IncompleteReadError(partial, n)
                await self._wait()
                if self._exception is not None:
                    raise self._exception
        self.reads.append((start, n, n))
        if n == 0:
            return self._out([])
        return self._take(n)

    async def read(self, n=-1):
        if self._exception is not None:
            raise self._exception
        if n == 0:
            return self._out([])
        if n < 0:
            while not self.eof:
                await self._wait()
            return self._take(len(self.buf))
        while not self.buf and not self.eof:
            await self._wait()
        return self._take(min(n, len(self.buf)))


class FakeWriter:
    def __init__(self, peername=('9.9.9.9', 999), sockname=('10.0.0.1', 60000)):
        self.written: list = []
        self.closed = False
        self.close_calls = 0
        self.info = {'peername': peername, 'sockname': sockname}

    def get_extra_info(self, name, default=None):
        return self.info.get(name, default)

    def write(self, data):
        if self.closed:
            raise ConnectionResetError('write on closed transport')
        self.written.append(data)

    async def drain(self):
        if self.closed:
            raise ConnectionResetError('Connection lost')

    def is_closing(self):
        return self.closed

    def close(self):
        self.closed = True
        self.close_calls += 1

    async def wait_closed(self):
        return None


class FakeServer:
    """what asyncio.start_server returns; incoming() plays StreamReaderProtocol.connection_made for one client"""

    def __init__(self, cb, host, port):
        self.cb, self.host, self.port = cb, host, port
        self.serving = True
        self.accept_tasks: list = []

    def is_serving(self):
        return self.serving

    def close(self):
        self.serving = False

    async def wait_closed(self):
        return None

    def incoming(self, loop, reader, writer):
        task = loop.spawn(self.cb(reader, writer), name='client-connected-cb')

        def done(t):
            if t.cancelled():
                writer.close()
                return
            exc = t.exception()
            if exc is not None:     # asyncio: 'Unhandled exception in client_connected_cb', transport closed
                loop.call_exception_handler({'message': 'Unhandled exception in client_connected_cb', 'exception': exc})
                writer.close()
        task.add_done_callback(done)
        self.accept_tasks.append(task)
        return task


class Streams:
    def __init__(self, symbolic):
        self.symbolic = symbolic
        self.outgoing: list = []     # (host, port, reader, writer) handed out by open_connection
        self.servers: dict = {}      # port -> FakeServer
        self.refuse = False

    async def open_connection(self, host=None, port=None, **kw):
        if self.refuse:
            raise ConnectionRefusedError('refused')
        r, w = FakeReader(self.symbolic), FakeWriter(peername=(host, port))
        self.outgoing.append((host, port, r, w))
        return r, w

    async def start_server(self, cb, host=None, port=None, **kw):
        s = FakeServer(cb, host, port)
        self.servers[port] = s
        return s


@contextlib.contextmanager
def streams(symbolic):
    """asyncio.open_connection / asyncio.start_server -> fakes (module attributes of asyncio, restored on exit)"""
    s = Streams(symbolic)
    old = asyncio.open_connection, asyncio.start_server
    asyncio.open_connection, asyncio.start_server = s.open_connection, s.start_server
    try:
        yield s
    finally:
        asyncio.open_connection, asyncio.start_server = old


# --------------------------------------------------------------------------------------------------
# termination monitor
# --------------------------------------------------------------------------------------------------

class Unbounded(symex.EngineSignal):
    """an array loop driven by a count from the wire did not stop within the derived bound"""


class Monitor:
    """tight: bound for loops with a symbolic count (bytes in the frame: an element consumes >= 1 byte or raises);
    generous: bound for concrete counts (real zlib may expand a frame ~1032x); beyond it the loop length is governed
    by the 32-bit count alone"""

    def __init__(self):
        self.tight = 0
        self.generous = 0
        self.max_iter = 0
        self.loops = 0

    def arm(self, frame_len):
        self.tight = frame_len
        self.generous = 1100 * frame_len + 64
        self.max_iter = 0
        self.loops = 0


MON = Monitor()

# everything that is a non-termination witness: our own monitors and the zlib stand-in's no-progress signal
NONTERMINATION = (Unbounded, codec.ZlibNoProgress)


@contextlib.contextmanager
def watchdog(seconds, what='decoding'):
    """wall-clock guard for CONCRETE executions of the real code (real zlib on concrete corruptions, every concrete replay): a
    synchronous loop that never ends would freeze the event loop - here it becomes Unbounded after `seconds`.  (Exploration of
    symbolic data is guarded by the counting monitors instead: solver time is not bounded by a few seconds.)"""
    import signal
    import threading
    if not hasattr(signal, 'setitimer') or threading.current_thread() is not threading.main_thread():
        yield
        return

    def fire(signum, frame):
        raise Unbounded(f'watchdog: {what} still running after {seconds} s')
    old = signal.signal(signal.SIGALRM, fire)
    signal.setitimer(signal.ITIMER_REAL, seconds)
    try:
        yield
    finally:
        signal.setitimer(signal.ITIMER_REAL, 0)
        signal.signal(signal.SIGALRM, old)


def monitored_range(*a):
    a = tuple(x.v if isinstance(x, Box) else x for x in a)
    sym = any(isinstance(x, (SWord, SInt)) for x in a)
    if not sym:
        r = _RANGE(*a)
        if len(r) <= MON.generous or MON.generous == 0:
            return r

        def cgen():
            k = 0
            for i in r:
                k += 1
                if k > MON.generous:
                    raise Unbounded(f'array loop still running after {k - 1} elements')
                MON.max_iter = max(MON.max_iter, k)
                yield i
        return cgen()
    if len(a) != 1 or isinstance(a[0], int):
        return codec.sym_range(*a)
    stop = a[0]
    MON.loops += 1

    def gen():
        i = 0
        while bool(stop > i):
            if i >= MON.tight > 0:
                # i elements were decoded from a frame of fewer bytes: the loop is bounded by the count only.
                # Make the witness a count that is really out of reach (the concrete replay counts iterations too).
                symex.ctx().assume(stop > MON.generous)
                raise Unbounded(f'array loop completed {i} elements on a {MON.tight}-byte frame')
            MON.max_iter = max(MON.max_iter, i + 1)
            yield i
            i += 1
    return gen()


@contextlib.contextmanager
def monitor(frame_len):
    """must be entered inside codec.installed(...) (overrides its `range` in aioslsk.protocol.primitives)"""
    import aioslsk.protocol.primitives as P
    d = P.__dict__
    missing = object()
    old = d.get('range', missing)
    d['range'] = monitored_range
    MON.arm(frame_len)
    try:
        yield MON
    finally:
        MON.arm(0)
        if old is missing:
            d.pop('range', None)
        else:
            d['range'] = old


# --------------------------------------------------------------------------------------------------
# independent reference: little endian, keystream, frame length, known message codes
# --------------------------------------------------------------------------------------------------

def le_value(terms):
    """unsigned little-endian value of byte terms: python int or z3 BitVec of 8*len bits"""
    terms = list(terms)
    if all(isinstance(t, int) for t in terms):
        return int.from_bytes(bytes(terms), 'little')
    return z3.Concat(*[codec._bv8(t) for t in reversed(terms)]) if len(terms) > 1 else codec._bv8(terms[0])


def keystream(key, i):
    """pinned definition of the obfuscation keystream (same as spec of C01): byte i of the body is XORed with byte
    (i mod 4) of rotl32(key, ((i // 4) mod 32) + 1), key read little endian"""
    r = ((i // 4) % 32 + 1) % 32
    if all(isinstance(k, int) for k in key):
        k32 = int.from_bytes(bytes(key), 'little')
        rot = ((k32 << r) | (k32 >> (32 - r))) & 0xFFFFFFFF if r else k32
        return (rot >> (8 * (i % 4))) & 0xFF
    k32 = z3.Concat(*[codec._bv8(k) for k in reversed(key)])
    rot = z3.RotateLeft(k32, r)
    return z3.Extract(8 * (i % 4) + 7, 8 * (i % 4), rot)


def xor(a, b):
    if isinstance(a, int) and isinstance(b, int):
        return a ^ b
    return codec._norm(codec._bv8(a) ^ codec._bv8(b))


def ref_plain(wire, obf):
    """the de-obfuscated bytes of a wire frame (terms)"""
    wire = list(wire)
    if not obf:
        return wire
    key, body = wire[:4], wire[4:]
    return [xor(b, keystream(key, i)) for i, b in enumerate(body)]


def ref_obfuscate(plain, key):
    """wire bytes of `plain` under `key` (terms)"""
    return list(key) + [xor(b, keystream(key, i)) for i, b in enumerate(plain)]


def v_eq(a, b):
    """a == b for python ints / z3 bit-vectors: python bool or z3 Bool"""
    if isinstance(a, int) and isinstance(b, int):
        return a == b
    if isinstance(a, int):
        a = z3.BitVecVal(a, b.size())
    if isinstance(b, int):
        b = z3.BitVecVal(b, a.size())
    return a == b


def v_ugt(a, b):
    if isinstance(a, int) and isinstance(b, int):
        return a > b
    if isinstance(a, int):
        a = z3.BitVecVal(a, b.size())
    if isinstance(b, int):
        if b >= 1 << a.size():
            return False
        b = z3.BitVecVal(b, a.size())
    return z3.UGT(a, b)


def terms(x):
    """byte terms of bytes / SBytes"""
    return list(x.b) if isinstance(x, SBytes) else list(x)


def same_bytes(a, b):
    """python bool / z3 Bool: the byte strings (bytes or SBytes) are equal"""
    ta, tb = terms(a), terms(b)
    if len(ta) != len(tb):
        return False
    return codec._and(*[codec._teq(x, y) for x, y in zip(ta, tb)])


def concat(*parts):
    out = []
    for p in parts:
        out.extend(terms(p))
    return out


def cut(seq, points):
    """split seq at the given absolute positions"""
    out, last = [], 0
    for p in sorted(set(points)):
        if 0 < p < len(seq):
            out.append(seq[last:p])
            last = p
    out.append(seq[last:])
    return [s for s in out if s]


STUBS = [
    'asyncio.open_connection / asyncio.start_server (attributes of the asyncio module) -> engine.c02env.Streams: fake '
    'StreamReader/StreamWriter (byte-accurate buffer of byte terms, scripted segmentation and EOF; readexactly(n) with a symbolic n '
    'forks on n <= buffered and concretises n in 0..buffered, else waits / raises IncompleteReadError at EOF like asyncio); '
    'FakeServer.incoming() runs the real ListeningConnection.accept in a task like StreamReaderProtocol (exception -> loop handler)',
    'range in aioslsk.protocol.primitives -> counting range (engine.c02env.monitored_range): same values; symbolic count forks lazily '
    'per iteration; raises Unbounded when an array loop outlives the derived bound (kept in concrete replay as a pure monitor)',
    'logging disabled (engine/cli.py)',
    'SIGALRM watchdog (signal.setitimer) around concrete executions of the real decoder / reader (real-zlib corruption jobs and every concrete '
    'replay): a hang becomes a parse_terminates refutation',
]
