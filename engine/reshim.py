"""reshim: the `re` stand-in of DESIGN §2.2 ("SPattern") -- regex matching as ONE Boolean formula.

engine/sstr.py already contains a backtracking matcher that forks on every character test (what C09
needs: spans, groups, split, sub).  Deciding `pattern.search(s)` that way costs one path per combination
of character classes.  Here the *real pattern text* produced by the code under test is parsed by
CPython's own parser (`re._parser`, via sstr._Compiled) and compiled, for a string of concrete length n
whose characters may be z3 bit-vectors, into a Boolean formula "some match exists" by dynamic
programming over positions:

    apply(nodes, {start position: condition})  ->  {end position: condition}

so that `search` / `match` / `fullmatch` decide ONE condition (one fork: matched / not matched).  The
formula is built from sstr's character predicates (masks over the alphabet), i.e. it is exact for every
string over the alphabet.  Existence of a match does not depend on sre's priorities (greedy / lazy /
alternation order), so those are ignored; constructs whose semantics is not "regular" (back-references,
conditional groups, atomic groups, possessive repeats) are handed to the backtracking matcher.

Group spans are rarely needed: the match object computes them on demand with the backtracking matcher
(under the path condition "a match exists").  `split` / `sub` / `findall` / `finditer` are those of
engine/sstr.py (they fork over separator positions).

Everything here also runs on plain `str` (conditions are then Python bools), which is how `validate()`
compares it with CPython's `re`.

`keep_sstr()`: while active, no string operation of engine/sstr.py collapses a fully concrete result to
a plain `str`.  Together with a harness that feeds only SStr values into the code under test, every
string that can become a key of a hash container is an SStr (constant hash, `==` decided by the solver),
which is the soundness condition of DESIGN §2.2 for dict / set / WeakSet look-ups.
"""
from __future__ import annotations

import re as _re
import re._constants as _rc

import z3

from engine import sstr
from engine.sstr import SStr, PUA0, PUA1, _and, _or, _not, ch_eq, ch_in, _case1, _st, has_sym
from engine.symex import HarnessError

_I, _A, _M, _S = _re.IGNORECASE, _re.ASCII, _re.MULTILINE, _re.DOTALL


class _Unsupported(Exception):
    """the pattern contains a construct whose existence semantics is not a position DP"""


def _is_nl(ch):
    return ch_in(ch, ('=', '\n'), lambda c: c == '\n')


def _sym_expr(code):
    return _st().exprs[code - (PUA1 if code >= PUA1 else PUA0)]


def lit_cond(ch, code, flags, syms=None):
    """does character `ch` match LITERAL `code`?  bool | z3 Bool (never forks)"""
    if code >= PUA0:            # a symbolic character of the pattern text (came through re.escape)
        e = syms[code] if syms is not None and code in syms else _sym_expr(code)
        if flags & _I:
            return _or([ch_eq(ch, e), ch_eq(_case1(ch, 'lower'), _case1(e, 'lower')),
                        ch_eq(_case1(ch, 'upper'), _case1(e, 'upper'))])
        return ch_eq(ch, e)
    lit = chr(code)
    if flags & _I and not (flags & _A and not lit.isascii()):
        return ch_in(ch, ('ilit', lit, bool(flags & _A)), sstr._icase_pred(lit))
    return ch_in(ch, ('=', lit), lambda c: c == lit)


def in_cond(ch, items, flags, syms=None):
    """character class; bool | z3 Bool (never forks)"""
    neg = False
    table = syms
    preds, syms = [], []
    for op, av in items:
        if op is _rc.NEGATE:
            neg = True
        elif op is _rc.LITERAL:
            if av >= PUA0:
                syms.append(av)
            elif flags & _I:
                preds.append(sstr._icase_pred(chr(av)))
            else:
                preds.append((lambda v: lambda c: c == v)(chr(av)))
        elif op is _rc.RANGE:
            lo, hi = av
            if lo >= PUA0 or hi >= PUA0:
                raise HarnessError('symbolic character as a range bound in a regex class')
            if flags & _I:
                preds.append((lambda a, b: lambda c: any(a <= ord(x) <= b for x in {c, c.lower(), c.upper()} if len(x) == 1))(lo, hi))
            else:
                preds.append((lambda a, b: lambda c: a <= ord(c) <= b)(lo, hi))
        elif op is _rc.CATEGORY:
            preds.append(sstr._category_pred(av, flags))
        else:
            raise HarnessError(f'regex class item {op} not modelled')
    key = ('fin', repr([(str(o), a if not isinstance(a, tuple) else tuple(a)) for o, a in items if o is not _rc.NEGATE]),
           flags & (_I | _A))
    parts = [ch_in(ch, key, lambda c: any(p(c) for p in preds))] if preds else []
    parts.extend(lit_cond(ch, code, flags, table) for code in syms)
    r = _or(parts)
    return _not(r) if neg else r


class _DP:
    """one formula construction: pattern tree x characters[0:n]"""

    def __init__(self, comp, chars, endpos, syms=None):
        self.comp = comp
        self.s = chars
        self.n = endpos
        self.syms = syms
        self.la_memo: dict = {}

    # ---- zero-width tests ----
    def _word(self, i, flags):
        if i < 0 or i >= self.n:
            return False
        a = bool(flags & _A)
        return ch_in(self.s[i], ('word', a), sstr._ascii_word if a else sstr._uni_word)

    def _at(self, where, p, flags):
        s, n = self.s, self.n
        if where is _rc.AT_BEGINNING:
            if flags & _M:
                return True if p == 0 else _is_nl(s[p - 1])
            return p == 0
        if where is _rc.AT_BEGINNING_STRING:
            return p == 0
        if where is _rc.AT_END:
            if flags & _M:
                return True if p == n else _is_nl(s[p])
            return p == n or (p == n - 1 and _is_nl(s[p]))
        if where is _rc.AT_END_STRING:
            return p == n
        if where in (_rc.AT_BOUNDARY, _rc.AT_NON_BOUNDARY):
            if n == 0:
                return False            # sre: neither \b nor \B matches in an empty string (CPython <= 3.13)
            a, b = self._word(p - 1, flags), self._word(p, flags)
            if isinstance(a, bool) and isinstance(b, bool):
                diff = a != b
            else:
                diff = z3.Xor(sstr._z(a), sstr._z(b))
            return diff if where is _rc.AT_BOUNDARY else _not(diff)
        raise HarnessError(f'regex anchor {where} not modelled')

    # ---- position maps ----
    @staticmethod
    def _put(m, p, c):
        if c is False:
            return
        old = m.get(p)
        m[p] = c if old is None else _or([old, c])

    def _merge(self, maps):
        out: dict = {}
        for m in maps:
            for p, c in m.items():
                self._put(out, p, c)
        return out

    def apply(self, nodes, flags, cur):
        for op, av in nodes:
            if not cur:
                return cur
            cur = self._step(op, av, flags, cur)
        return cur

    def _char_step(self, cur, test):
        out: dict = {}
        for p, c in cur.items():
            if p < self.n:
                self._put(out, p + 1, _and([c, test(self.s[p])]))
        return out

    def _step(self, op, av, flags, cur):
        if op is _rc.LITERAL:
            return self._char_step(cur, lambda ch: lit_cond(ch, av, flags, self.syms))
        if op is _rc.NOT_LITERAL:
            return self._char_step(cur, lambda ch: _not(lit_cond(ch, av, flags, self.syms)))
        if op is _rc.ANY:
            if flags & _S:
                return self._char_step(cur, lambda ch: True)
            return self._char_step(cur, lambda ch: _not(_is_nl(ch)))
        if op is _rc.IN:
            return self._char_step(cur, lambda ch: in_cond(ch, av, flags, self.syms))
        if op is _rc.AT:
            out: dict = {}
            for p, c in cur.items():
                self._put(out, p, _and([c, self._at(av, p, flags)]))
            return out
        if op is _rc.BRANCH:
            return self._merge([self.apply(list(alt), flags, cur) for alt in av[1]])
        if op is _rc.SUBPATTERN:
            g, add, dele, p = av
            return self.apply(list(p), (flags | add) & ~dele, cur)
        if op in (_rc.MAX_REPEAT, _rc.MIN_REPEAT):
            lo, hi, p = av
            body = list(p)
            x = cur
            for _ in range(lo):
                x = self.apply(body, flags, x)
                if not x:
                    return x
            res = dict(x)
            k, extra = lo, 0
            # iterations that consume nothing add no end position, so at most n further iterations matter
            while k < hi and x and extra <= self.n:
                x = self.apply(body, flags, x)
                res = self._merge([res, x])
                k += 1
                extra += 1
            return res
        if op in (_rc.ASSERT, _rc.ASSERT_NOT):
            direction, p = av
            body = list(p)
            out = {}
            for pos, c in cur.items():
                key = (id(p), flags, pos)
                la = self.la_memo.get(key)
                if la is None:
                    if direction >= 0:
                        la = _or(list(self.apply(body, flags, {pos: True}).values()))
                    else:
                        lo, hi = p.getwidth()
                        if lo != hi:
                            raise HarnessError('look-behind requires fixed-width pattern')
                        la = False if pos - lo < 0 else self.apply(body, flags, {pos - lo: True}).get(pos, False)
                    self.la_memo[key] = (p, la)
                else:
                    la = la[1]
                self._put(out, pos, _and([c, la if op is _rc.ASSERT else _not(la)]))
            return out
        if op in (_rc.GROUPREF, _rc.GROUPREF_EXISTS, _rc.ATOMIC_GROUP, _rc.POSSESSIVE_REPEAT):
            raise _Unsupported(str(op))
        raise HarnessError(f'regex node {op} not modelled')


def _simp(cond):
    if cond is True or cond is False:
        return cond
    s = z3.simplify(cond)
    if z3.is_true(s):
        return True
    if z3.is_false(s):
        return False
    return s


class FMatch(sstr.SMatch):
    """truthy match object of a formula-decided match; spans are computed on demand by the backtracking
    matcher of engine/sstr.py (which forks, consistently with the path condition "a match exists")"""

    def __init__(self, pattern, string, kind, args):
        self.re = pattern
        self.string = string
        self._kind, self._args = kind, args
        self._lazy = None
        self.pos, self.endpos = args[1], args[2]

    @property
    def _spans(self):
        if self._lazy is None:
            m = getattr(sstr.SPattern, self._kind)(self.re, self._args[0], self._args[1], self._args[2])
            if m is None:
                raise HarnessError('reshim: the formula says "match" but the backtracking matcher finds none')
            self._lazy = m._spans
        return self._lazy

    def __repr__(self):
        return '<FMatch>'


class FPattern(sstr.SPattern):
    """compiled pattern whose search / match / fullmatch are decided as one formula"""

    def __init__(self, pattern, flags=0):
        super().__init__(pattern, flags)
        # symbolic literals of the pattern text are resolved to their z3 terms now: the placeholder table is per
        # path, but a pattern object may outlive the path (a cache inside the code under test); the terms
        # themselves (named variables) mean the same thing on every path
        self._syms = None
        if has_sym(self.pattern_text):
            self._syms = {ord(ch): _sym_expr(ord(ch)) for ch in self.pattern_text if ord(ch) >= PUA0}

    def exists(self, kind: str, string, pos=0, endpos=None):
        """bool | z3 Bool: `kind`(string) finds a match.  Never forks.  Raises _Unsupported for patterns
        with back-references / atomic constructs."""
        cs, pos, endpos = self._prep(string, pos, endpos)
        dp = _DP(self._comp, cs, endpos, self._syms)
        flags = self._comp.flags
        if kind == 'search':
            start = {p: True for p in range(pos, endpos + 1)}
        else:
            start = {pos: True}
        ends = dp.apply(self._comp.tree, flags, start)
        if kind == 'fullmatch':
            return _simp(ends.get(endpos, False))
        return _simp(_or(list(ends.values())))

    def _decided(self, kind, string, pos, endpos):
        r = self._plain(string)
        if r is not None:
            return getattr(r, kind)(string, pos, *(() if endpos is None else (endpos,)))
        try:
            cond = self.exists(kind, string, pos, endpos)
        except _Unsupported:
            return getattr(sstr.SPattern, kind)(self, string, pos, endpos)
        if not sstr._decide(cond):
            return None
        cs, p, e = self._prep(string, pos, endpos)
        return FMatch(self, self._src(string), kind, (string, p, e))

    def search(self, string, pos=0, endpos=None):
        return self._decided('search', string, pos, endpos)

    def match(self, string, pos=0, endpos=None):
        return self._decided('match', string, pos, endpos)

    def fullmatch(self, string, pos=0, endpos=None):
        return self._decided('fullmatch', string, pos, endpos)


class ReShim(sstr.ReShim):
    """stand-in for the `re` module inside a module under test.  compile() returns FPattern."""

    def compile(self, pattern, flags=0):
        if isinstance(pattern, FPattern):
            return pattern
        if isinstance(pattern, sstr.SPattern):
            return FPattern(pattern.pattern_text, pattern.flags | int(flags))
        return FPattern(pattern, int(flags))


# ------------------------------------------------------------------------------
# hash-container soundness: keep every derived string an SStr
# ------------------------------------------------------------------------------

def _mk_keep(cs):
    return SStr(tuple(sstr._norm(ch) for ch in cs))


_CASE_CACHE: dict = {}
_ORIG_CH_CASE = sstr._ch_case


def _ch_case_cached(ch, which):
    """sstr._ch_case with a per-process cache: lower()/upper() of a symbolic character is an If-chain over the
    cased members of the alphabet; building and simplifying it again for the same z3 term on every path is pure
    overhead.  The cached value keeps the term (and the alphabet) alive, so the AST id in the key stays valid."""
    if isinstance(ch, str):
        return _ORIG_CH_CASE(ch, which)
    sg = _st().sigma
    k = (ch.get_id(), which, id(sg))
    hit = _CASE_CACHE.get(k)
    if hit is None:
        if len(_CASE_CACHE) > 200000:
            _CASE_CACHE.clear()
        hit = _CASE_CACHE[k] = (ch, sg, _ORIG_CH_CASE(ch, which))
    return hit[2]


class keep_sstr:
    """while active, engine/sstr.py never collapses a fully concrete result to `str` (see module doc), and
    case mapping of symbolic characters is cached.  Process-local monkey patch of two module functions,
    restored on exit; engine/sstr.py is not edited."""

    def __enter__(self):
        self._saved = (sstr._mk, sstr._ch_case)
        sstr._mk = _mk_keep
        sstr._ch_case = _ch_case_cached
        return self

    def __exit__(self, *a):
        sstr._mk, sstr._ch_case = self._saved


def const(text: str) -> SStr:
    """a concrete string as an SStr (constant hash, character-wise ==)"""
    return SStr(tuple(text))


# ------------------------------------------------------------------------------
# validation against CPython's re
# ------------------------------------------------------------------------------

GENERIC_PATTERNS = [
    (r'[\\/]+', 0), (r'[^\W_]', 0), (r'[\W_]', 0), (r'a\.b \((\d+)\)', 0), (r'(a|ab)(c|bcd)?', 0), (r'a*?b', 0),
    (r'(?i)a[b-c]', 0), (r'\bab\b', 0), (r'a\B', 0), (r'^a|b$', 0), (r'(?<![^\W_])a(?![^\W_])', 0), (r'(a)|(b)', 0), (r'x*', 0),
    (r'(a+)+b', 0), (r'(a*)*b', 0), (r'(a|)+c', 0), (r'(?:a|b)*?c', 0), (r'a{1,2}b?', 0), (r'(?:a|){2,3}b', 0), (r'[^a.]', 0),
    (r'(?:(?<=a)|^)b', _re.IGNORECASE), (r'(?<=\W|_)a', 0), (r'(?<!ab)b', 0), (r'a(?=b|$)', 0), (r'a(?!b)', 0), (r'.a', 0),
    (r'(?s).a', 0), (r'(?m)^a$', 0), (r'\Aa\Z', 0), (r'(?a)\w\W', 0), (r'(?i:a)b', 0), (r'[^\W\d]+1', 0), (r'', 0), (r'(?:)+a', 0),
    (r'\d\s?\S', 0), (r'é', _re.IGNORECASE), (r'[à-ï]', _re.IGNORECASE),
]


def validate(patterns, alphabet, maxlen, kinds=('search', 'match', 'fullmatch')) -> int:
    """the formula compiler on plain strings (conditions are Python bools) against CPython's `re` on every
    string up to maxlen over `alphabet`.  Raises HarnessError on the first disagreement; returns the number
    of comparisons.  Needs no symbolic context."""
    import itertools
    strings = [''.join(t) for n in range(maxlen + 1) for t in itertools.product(alphabet, repeat=n)]
    n = 0
    for pat, fl in patterns:
        real = _re.compile(pat, fl)
        mine = FPattern(pat, fl)
        for s in strings:
            for kind in kinds:
                a = getattr(real, kind)(s) is not None
                b = mine.exists(kind, s)
                if a is not b:
                    raise HarnessError(f'reshim differs from re: {kind}({pat!r}, {s!r}): real {a} formula {b}')
                n += 1
    return n
