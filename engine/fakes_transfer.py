"""Shared environment fakes, lazily-forking enum proxies and the one-step harness for the
transfer-manager properties C05 (upload slots / priority) and C06 (nothing after
abort/pause/remove).  Nothing in /repo is edited: the real TransferManager, UserManager, EventBus,
Settings, Transfer and TransferState classes are used; only the network, the shares manager, the
file connection and the clock are replaced (every replacement is listed in the META['stubs'] of the
property modules)."""
from __future__ import annotations

import asyncio
import contextlib
import inspect
import types

from engine import symex
from engine.symex import SBool, SInt, And, Or, Not, Implies, ite
from engine.vloop import VLoop

import aioslsk.transfer.manager as tm
import aioslsk.transfer.model as tmodel
from aioslsk.events import EventBus
from aioslsk.exceptions import ConnectionWriteError, PeerConnectionError
from aioslsk.network.connection import PeerConnectionType
from aioslsk.protocol.messages import PeerTransferReply
from aioslsk.settings import Settings
from aioslsk.transfer.manager import TransferManager, _RequestFlag
from aioslsk.transfer.model import Transfer, TransferDirection
from aioslsk.transfer.state import TransferState
from aioslsk.user.manager import UserManager
from aioslsk.user.model import User, UserStatus

# a path cut by the engine (PathAbort / BoundHit) leaves never-started coroutines behind
import warnings  # noqa: E402
warnings.filterwarnings('ignore', category=RuntimeWarning, message='coroutine .* was never awaited')

ST = TransferState.State
UP, DOWN = TransferDirection.UPLOAD, TransferDirection.DOWNLOAD
UP_STATES = [ST.VIRGIN, ST.QUEUED, ST.INITIALIZING, ST.UPLOADING, ST.COMPLETE, ST.FAILED, ST.ABORTED, ST.PAUSED]
DOWN_STATES = [ST.VIRGIN, ST.QUEUED, ST.INITIALIZING, ST.INCOMPLETE, ST.DOWNLOADING, ST.COMPLETE, ST.FAILED,
               ST.ABORTED, ST.PAUSED]
_MISSING = object()


# ----------------------------------------------------------------------------------------------
# proxies
# ----------------------------------------------------------------------------------------------

class SEnum:
    """member of a small Enum whose identity is a symbolic index into `members`.  `x == Member`,
    `x in (A, B)` return/consume an SBool, so the code under test forks exactly on the distinctions
    it makes itself (lazy case split); nothing is enumerated up front.  Comparison with a member
    outside `members` is constantly False (no solver query)."""
    __slots__ = ('cls', 'members', 'idx')

    def __init__(self, cls, members, idx):
        self.cls, self.members, self.idx = cls, tuple(members), idx

    def __eq__(self, o):
        if isinstance(o, self.cls):
            for k, m in enumerate(self.members):
                if m is o:
                    return self.idx == k
            return False
        if isinstance(o, SEnum) and o.cls is self.cls and o.members == self.members:
            return self.idx == o.idx
        return False

    def __ne__(self, o):
        r = self.__eq__(o)
        return ~r if isinstance(r, SBool) else (not r)

    def member(self):
        return self.members[symex.ctx().concretize(self.idx)]

    def __hash__(self):
        return hash(self.member())

    @property
    def name(self):
        return self.member().name

    @property
    def value(self):
        return self.member().value

    def __repr__(self):
        return f'<SEnum {self.cls.__name__}>'

    __str__ = __repr__

    def __format__(self, spec):
        return repr(self)


def sym_enum(c, cls, name, members):
    """fresh member of `cls` restricted to `members` (symbolic: SEnum, replay: the real member).
    The model variable is the index into `members`."""
    members = list(members)
    v = c.fresh_int(name, 0, len(members) - 1)
    if not c.symbolic:
        return members[v]
    return SEnum(cls, members, v)


def is_member(x, *members):
    """non-forking `x in members` for SEnum / real enum members"""
    if isinstance(x, SEnum):
        ks = [k for k, m in enumerate(x.members) if any(m is y for y in members)]
        return Or(*[x.idx == k for k in ks])
    return SBool(any(x is m for m in members))


class SymList(list):
    """`list` inside aioslsk.transfer.manager while exploring: identical to list, except that a
    slice `[:stop]` with a symbolic stop forks into the len+1 distinguishable outcomes (all values
    >= len give the whole list) instead of one path per integer value"""

    def __getitem__(self, k):
        if isinstance(k, slice) and isinstance(k.stop, SInt) and k.start is None and k.step is None:
            n, stop = len(self), k.stop
            if stop >= n:
                return list(self)
            if stop >= 0:
                return list.__getitem__(self, slice(None, int(stop)))
            if stop > -n:
                return list.__getitem__(self, slice(None, int(stop)))
            return []
        return list.__getitem__(self, k)


class SymState:
    """stand-in for `Transfer.state` while exploring one management step: VALUE is a symbolic
    TransferState.State (the functions under test read nothing else of the state object).  In
    concrete replay the real state class is instantiated instead."""

    def __init__(self, transfer, value):
        self.transfer = transfer
        self.VALUE = value

    def __repr__(self):
        return '<SymState>'


class SymMembers:
    """`settings.users.friends` while exploring: membership of each user name is an SBool
    (`name in friends` coerces through bool() and therefore forks in the code under test)"""

    def __init__(self, flags):
        self.flags = flags

    def __contains__(self, name):
        return self.flags.get(name, False)

    def copy(self):
        return self

    def __iter__(self):
        raise symex.HarnessError('iteration over the symbolic friends set')


# ----------------------------------------------------------------------------------------------
# loop that remembers which coroutine / transfer every task was created for
# ----------------------------------------------------------------------------------------------

NEGOTIATION_COROS = ('_initialize_upload', '_queue_remotely', '_initialize_download')


def _classify(coro):
    code = getattr(coro, 'cr_code', None)
    frame = getattr(coro, 'cr_frame', None)
    kind = code.co_name if code is not None else '?'
    transfer = None
    if frame is not None:
        for v in frame.f_locals.values():
            if isinstance(v, Transfer):
                transfer = v
                break
    return kind, transfer


class TLoop(VLoop):

    def __init__(self, picker=None):
        super().__init__(picker)
        self.task_log = []
        self.on_task = None

    def create_task(self, coro, *, name=None, context=None):
        kind, transfer = _classify(coro)
        t = super().create_task(coro, name=name, context=context)
        rec = {'task': t, 'kind': kind, 'transfer': transfer, 'coro': coro, 'at': self._time, 'name': t.get_name()}
        self.task_log.append(rec)
        if self.on_task is not None:
            self.on_task(rec)
        return t

    def jump(self):
        """nothing ready: move the clock to the next timer.  Returns False when there is none"""
        nt = self.next_timer()
        if nt is None:
            return False
        self._time = max(self._time, nt)
        return True


def not_started(rec):
    return inspect.getcoroutinestate(rec['coro']) == inspect.CORO_CREATED


def transfer_of_task(loop, task):
    """the transfer a task was created for (None for tasks that are not negotiations)"""
    for r in loop.task_log:
        if r['task'] is task:
            return r['transfer']
    return None


def live_negotiations(loop, transfer):
    return [r for r in loop.task_log if r['transfer'] is transfer and r['kind'] in NEGOTIATION_COROS
            and not r['task'].done()]


# ----------------------------------------------------------------------------------------------
# environment fakes
# ----------------------------------------------------------------------------------------------

class Latency:
    """every awaitable of the environment fakes (file system, file handle, shares, network, file
    connection) first awaits `LAT.wait(what)`.  By default that is instant; a harness may install a
    hook that suspends (enumerated: instant / slow), so that a change which puts an environment call
    into a place where it opens a scheduling window is explored with that window open."""
    hook = None

    async def wait(self, what):
        if self.hook is not None:
            await self.hook(what)


LAT = Latency()


class _FakeOSPath:
    async def getsize(self, p):
        await LAT.wait('fs.path.getsize')
        return FakeFS.filesize

    async def exists(self, p):
        await LAT.wait('fs.path.exists')
        return True

    async def isfile(self, p):
        await LAT.wait('fs.path.isfile')
        return True

    async def isdir(self, p):
        await LAT.wait('fs.path.isdir')
        return False

    async def getmtime(self, p):
        await LAT.wait('fs.path.getmtime')
        return 0.0


class FakeFS:
    """`asyncos` (aiofiles.os) inside aioslsk.transfer.manager: every file exists, is `filesize` bytes
    long, every operation succeeds - after LAT.wait(), i.e. possibly after a suspension"""
    filesize = 3
    path = _FakeOSPath()

    def __getattr__(self, name):
        if name.startswith('__'):
            raise AttributeError(name)

        async def op(*a, **kw):
            await LAT.wait('fs.' + name)
            return None
        return op


class FakeFileConnection:
    """file (F) connection handed out by FakeNetwork.create_peer_connection: the ticket write and
    the offset read succeed, send_file blocks until the harness releases it (result: all bytes
    sent / exception: ConnectionWriteError)"""

    def __init__(self, net, username):
        self.net, self.username = net, username
        self.release = net.loop.create_future()
        self.closed = False
        self.transfer = None

    async def send_message(self, data):
        await LAT.wait('file_connection.send_message')
        self.net.file_writes.append({'at': self.net.loop.time(), 'username': self.username, 'data': data,
                                     'task': asyncio.current_task()})

    async def receive_transfer_offset(self):
        await LAT.wait('file_connection.receive_transfer_offset')
        return 0

    def set_connection_state(self, state):
        pass

    async def send_file(self, handle, callback=None):
        await self.release
        if callback is not None:
            callback(b'x' * self.net.filesize)

    # --- the same object as the uploader's file connection arriving for a download ---------------
    connection_type = PeerConnectionType.FILE
    hostname, port = '10.0.0.9', 2234
    ticket = 0

    async def receive_transfer_ticket(self):
        await LAT.wait('file_connection.receive_transfer_ticket')
        return self.ticket

    async def receive_file(self, handle, filesize, callback=None):
        """the download sits in a pending read until the harness releases it (then all bytes arrive)"""
        await self.release
        if callback is not None and isinstance(filesize, int):
            callback(b'x' * filesize)

    async def receive_until_eof(self, raise_exception=True):
        return None

    async def disconnect(self, reason=None):
        self.closed = True


class FakeNetwork:
    """records what leaves the client.  `policy(what, username, payload)` (supplied by the harness,
    usually a c.choose) decides how each peer send / file connection attempt ends:
    ('ok', delay) or ('err', delay); the delay is virtual time spent connecting, the outcome is
    recorded when it happens, cancellation propagates like in the real Network."""

    def __init__(self, loop, policy=None, filesize=3):
        self.loop = loop
        self.policy = policy or (lambda what, username, payload: ('ok', 0))
        self.filesize = filesize
        self.attempts = []        # every send_peer_messages call: dict(at, username, messages, status, done_at)
        self.sent = []            # (time, username, message) at the moment of delivery
        self.connects = []        # file connection attempts: dict(at, username, status)
        self.file_writes = []
        self.server = []
        self.reply_waiters = []   # dict(username, cls, fields, future)
        self.file_connections = []

    async def send_peer_messages(self, username, *messages, raise_on_error=True):
        rec = {'at': self.loop.time(), 'username': username, 'messages': messages, 'status': 'pending', 'done_at': None,
               'task': asyncio.current_task()}
        self.attempts.append(rec)
        await LAT.wait('network.send_peer_messages')
        kind, delay = self.policy('send', username, messages)
        try:
            await asyncio.sleep(delay)
        except asyncio.CancelledError:
            rec['status'], rec['done_at'] = 'cancelled', self.loop.time()
            raise
        rec['done_at'] = self.loop.time()
        if kind == 'err':
            rec['status'] = 'failed'
            raise PeerConnectionError('fake: no connection to peer')
        rec['status'] = 'sent'
        for m in messages:
            self.sent.append((self.loop.time(), username, m))

    def create_peer_response_future(self, peer, message_class, fields=None):
        fut = self.loop.create_future()
        self.reply_waiters.append({'username': peer, 'cls': message_class, 'fields': fields or {}, 'future': fut})
        return fut

    async def create_peer_connection(self, username, typ, **kw):
        rec = {'at': self.loop.time(), 'username': username, 'status': 'pending', 'task': asyncio.current_task()}
        self.connects.append(rec)
        await LAT.wait('network.create_peer_connection')
        kind, delay = self.policy('connect', username, typ)
        try:
            await asyncio.sleep(delay)
        except asyncio.CancelledError:
            rec['status'] = 'cancelled'
            raise
        if kind == 'err':
            rec['status'] = 'failed'
            raise PeerConnectionError('fake: file connection failed')
        rec['status'] = 'open'
        conn = FakeFileConnection(self, username)
        self.file_connections.append(conn)
        return conn

    def queue_server_messages(self, *messages):
        self.server.extend(messages)
        return []

    async def send_server_messages(self, *messages, raise_on_error=True):
        self.server.extend(messages)

    # helpers for harnesses ---------------------------------------------------------------
    def pending_reply(self, username=None):
        for w in self.reply_waiters:
            if not w['future'].done() and (username is None or w['username'] == username):
                return w
        return None

    def answer(self, waiter, allowed, reason=None):
        msg = PeerTransferReply.Request(ticket=waiter['fields'].get('ticket', 0), allowed=allowed, reason=reason)
        waiter['future'].set_result((None, msg))


class _SharedItem:
    def __init__(self, path):
        self.path = path

    def get_absolute_path(self):
        return '/nonexistent/verif/share/' + self.path.replace('\\', '/')


class FakeShares:
    """every requested file is shared with everybody and is `filesize` bytes long"""

    def __init__(self, filesize=3):
        self.filesize = filesize

    async def get_shared_item(self, remote_path, username=None):
        await LAT.wait('shares.get_shared_item')
        return _SharedItem(remote_path)

    async def find_shared_item(self, remote_path, username=None):
        await LAT.wait('shares.find_shared_item')
        return _SharedItem(remote_path)

    def find_shared_item_cache(self, remote_path, username=None):
        return _SharedItem(remote_path)

    async def get_filesize(self, item):
        await LAT.wait('shares.get_filesize')
        return self.filesize

    def calculate_download_path(self, remote_path):
        return '/nonexistent/verif/dl', remote_path.replace('\\', '/').split('/')[-1]

    async def create_directory(self, path):
        await LAT.wait('shares.create_directory')
        return None


class _FakeHandle:
    async def seek(self, n):
        await LAT.wait('file.seek')
        return n

    async def read(self, n=-1):
        await LAT.wait('file.read')
        return b''

    async def __aenter__(self):
        await LAT.wait('file.open')
        return self

    def __await__(self):
        return self.__aenter__().__await__()

    async def __aexit__(self, *a):
        return False


@contextlib.contextmanager
def env(loop, symbolic=False):
    """clock of aioslsk.transfer.manager / .model -> the loop's virtual clock;
    aiofiles.open (upload source file) -> an in-memory handle; asyncos (aiofiles.os) inside
    aioslsk.transfer.manager -> FakeFS; while exploring, `list` inside aioslsk.transfer.manager ->
    SymList (merges the outcomes of a symbolic slice bound).  The latency hook is reset."""
    clock = types.SimpleNamespace(monotonic=loop.time, time=loop.time)
    saved = [(tm.__dict__, 'time', tm.__dict__.get('time', _MISSING)),
             (tmodel.__dict__, 'time', tmodel.__dict__.get('time', _MISSING)),
             (tm.__dict__, 'aiofiles', tm.__dict__.get('aiofiles', _MISSING)),
             (tm.__dict__, 'asyncos', tm.__dict__.get('asyncos', _MISSING)),
             (tm.__dict__, 'list', tm.__dict__.get('list', _MISSING))]
    tm.__dict__['time'] = clock
    tmodel.__dict__['time'] = clock
    tm.__dict__['aiofiles'] = types.SimpleNamespace(open=lambda *a, **kw: _FakeHandle())
    tm.__dict__['asyncos'] = FakeFS()
    LAT.hook = None
    if symbolic:
        tm.__dict__['list'] = SymList
    try:
        yield
    finally:
        LAT.hook = None
        for d, k, v in saved:
            if v is _MISSING:
                d.pop(k, None)
            else:
                d[k] = v


class World:
    pass


_SETTINGS_PROTO = None


async def _noop_tracking(*a, **kw):
    return None


def build_world(loop, policy=None, filesize=3):
    """real Settings / EventBus / UserManager / TransferManager wired to the fakes"""
    global _SETTINGS_PROTO
    if _SETTINGS_PROTO is None:
        _SETTINGS_PROTO = Settings(credentials={'username': 'me', 'password': 'x'})
    w = World()
    w.loop = loop
    w.settings = _SETTINGS_PROTO.model_copy(deep=True)
    w.bus = EventBus()
    w.net = FakeNetwork(loop, policy, filesize)
    w.shares = FakeShares(filesize)
    FakeFS.filesize = filesize
    w.um = UserManager(w.settings, w.bus, w.net)
    # user tracking (AddUser / RemoveUser traffic) is C15's subject; here it is a no-op
    w.um.track_user = _noop_tracking
    w.um.untrack_user = _noop_tracking
    w.manager = TransferManager(w.settings, w.bus, w.um, w.shares, w.net)
    w.users = {}
    return w


def set_slots(w, value):
    """upload_slots may be a symbolic int: written past pydantic's validation"""
    if isinstance(value, int):
        w.settings.transfers.limits.upload_slots = value
    else:
        w.settings.transfers.limits.__dict__['upload_slots'] = value


def add_user(w, name, status=UserStatus.UNKNOWN, privileged=False):
    u = User(name=name, status=status, privileged=privileged)
    w.users[name] = u            # strong reference: UserManager._users is a WeakValueDictionary
    w.um._users[name] = u
    return u


def set_friends(w, flags):
    """flags: name -> bool / SBool"""
    if all(isinstance(v, bool) for v in flags.values()):
        w.settings.users.friends = {n for n, v in flags.items() if v}
    else:
        w.settings.users.__dict__['friends'] = SymMembers(dict(flags))


def finished_task(loop):
    """a task that has finished but whose done-callbacks have not run yet"""
    async def nothing():
        return None
    t = loop.spawn(nothing(), name='finished-negotiation')
    loop.run_ready()
    if not t.done():
        raise symex.HarnessError('finished_task: not finished')
    return t


def hold_lock(loop, transfer):
    """acquire the transfer's state lock the way a suspended abort()/pause() holds it"""
    co = transfer._state_lock.acquire()

    def run():
        try:
            co.send(None)
        except StopIteration:
            return
        raise symex.HarnessError('state lock was not free')
    loop.call(run)


def pending_task(loop):
    """an unfinished task (stands for a negotiation that is still in flight)"""
    async def in_flight():
        await loop.create_future()
    return loop.spawn(in_flight(), name='pre-existing-negotiation')


# ----------------------------------------------------------------------------------------------
# one management step from an arbitrary pre-state (shared by C05 and C06)
# ----------------------------------------------------------------------------------------------

def rank_class(status, friend, privileged):
    """pinned ranking of the property: privileged > friend > online/away > unknown"""
    online = is_member(status, UserStatus.ONLINE, UserStatus.AWAY)
    return ite(privileged, 3, ite(friend, 2, ite(online, 1, 0)))


STATUSES = [UserStatus.UNKNOWN, UserStatus.OFFLINE, UserStatus.ONLINE, UserStatus.AWAY]


def step_harness(c, dirs, users, prop, slots_hi=4, inflight=True, sym_users=True, statuses=4, vary_downloads=True,
                 stale_handles=False, locks=False):
    """`dirs`: string over U/D (direction of each transfer, list order = order in the manager);
    `users`: owner index of each transfer.  Everything else of the pre-state is symbolic:
    upload_slots, per user status / friend / privileged (sym_users), per transfer the state, and for
    downloads remotely_queued / fail reason present, and whether its task slot is occupied by an
    unfinished task (inflight)."""
    n = len(dirs)
    nu = max(users) + 1
    loop = TLoop()
    with env(loop, c.symbolic):
        w = build_world(loop)
        S = c.fresh_int('upload_slots', 0, slots_hi)
        set_slots(w, S)
        status, friend, priv = [], [], []
        for j in range(nu):
            if sym_users:
                status.append(sym_enum(c, UserStatus, f'status_u{j}', STATUSES[:statuses]))
                friend.append(c.fresh_bool(f'friend_u{j}'))
                priv.append(c.fresh_bool(f'privileged_u{j}'))
            else:
                status.append(UserStatus.ONLINE)
                friend.append(False)
                priv.append(False)
            add_user(w, f'user{j}', status[j], priv[j])
        set_friends(w, {f'user{j}': friend[j] for j in range(nu)})

        T, state, rq, infl, stale, locked = [], [], [], [], [], []
        for i in range(n):
            up = dirs[i] == 'U'
            t = Transfer(f'user{users[i]}', f'file{i}', UP if up else DOWN)
            st = sym_enum(c, ST, f'state_t{i}', UP_STATES if up else DOWN_STATES)
            t.state = SymState(t, st) if c.symbolic else TransferState.init_from_state(st, t)
            startable = is_member(st, ST.QUEUED) if up else is_member(st, ST.QUEUED, ST.INCOMPLETE, ST.FAILED)
            if up or not vary_downloads:
                rq.append(False)
            else:
                # remotely_queued / a retry-blocking fail reason are only varied where they can matter
                r = c.fresh_bool(f'remotely_queued_t{i}')
                c.assume(Implies(r, startable))
                t.remotely_queued = r
                rq.append(r)
                has_reason = c.fresh_bool(f'has_fail_reason_t{i}')
                c.assume(Implies(has_reason, is_member(st, ST.FAILED)))
                if has_reason:
                    t.fail_reason = 'Cancelled'
            # task slot: empty / occupied by an unfinished task / still holding a task that has
            # finished (its done-callback has not run yet); only varied for startable states
            f = c.fresh_bool(f'in_flight_t{i}') if inflight else False
            g = c.fresh_bool(f'finished_task_in_slot_t{i}') if stale_handles else False
            if inflight:
                c.assume(Implies(f, startable))
            if stale_handles:
                c.assume(Implies(g, And(startable, Not(f))))
            task = done = None
            if f:
                task = pending_task(loop)
            elif g:
                done = finished_task(loop)
            if up:
                t._transfer_task = task or done
            else:
                t._remotely_queue_task = task or done
            infl.append(task)
            stale.append(done)
            # a state transition of this transfer is in progress (its state lock is held)
            lk = c.fresh_bool(f'transition_in_progress_t{i}') if locks else False
            if locks:
                c.assume(Implies(lk, startable))
            if lk:
                hold_lock(loop, t)
            locked.append(bool(lk))
            t.state_listeners.append(w.manager)
            w.manager._transfers.append(t)
            T.append(t)
            state.append(st)

        if not c.symbolic:
            c.note(f'upload_slots={S}')
            for j in range(nu):
                c.note(f'user{j}: status={status[j].name} friend={friend[j]} privileged={priv[j]}')
            for i, t in enumerate(T):
                c.note(f'transfer {i}: {t.direction.name} of user{users[i]} state={t.state.VALUE.name} '
                       f'remotely_queued={t.remotely_queued} fail_reason={t.fail_reason} '
                       f'slot={"unfinished task" if infl[i] else "finished task" if stale[i] else "empty"} '
                       f'transition_in_progress={locked[i]}')
        n_before = len(loop.task_log)
        exc = None
        try:
            loop.call(w.manager.manage_transfers)
        except Exception as e:  # noqa
            exc = e
        c.reach('stepped')
        c.check(exc is None, 'step_no_exception', sig=[prop], info=repr(exc))
        new = loop.task_log[n_before:]
        started = [[r for r in new if r['transfer'] is t] for t in T]
        if not c.symbolic:
            c.note('manage_transfers created: ' + ', '.join(f"{r['kind']} for transfer {i}" for i in range(n) for r in started[i]))
        unknown = [r for r in new if r['transfer'] is None or all(r['transfer'] is not t for t in T)]
        c.check(not unknown, 'step_only_known_tasks', sig=[prop], info=[r['kind'] for r in unknown])

        if prop == 'C05':
            _c05_step_obligations(c, dirs, users, S, status, friend, priv, T, state, infl, started)
        else:
            _c06_step_obligations(c, dirs, T, state, rq, infl, started, locked)
        c.check(not loop.errors, 'no_loop_errors', sig=[prop], info=repr(loop.errors[:1]))
        loop.cleanup()


def _c05_step_obligations(c, dirs, users, S, status, friend, priv, T, state, infl, started):
    n = len(dirs)
    nu = len(status)
    ups = [i for i in range(n) if dirs[i] == 'U']
    proc = {i: is_member(state[i], ST.INITIALIZING, ST.UPLOADING) for i in ups}
    queued = {i: is_member(state[i], ST.QUEUED) for i in ups}
    P = 0
    for i in ups:
        P = P + ite(proc[i], 1, 0)
    free = ite(S - P > 0, S - P, 0)
    st_up = [i for i in ups if started[i]]
    k = sum(len(started[i]) for i in ups)
    offline = [is_member(status[j], UserStatus.OFFLINE) for j in range(nu)]
    cls = [rank_class(status[j], friend[j], priv[j]) for j in range(nu)]

    # (1) never more than the free slots
    c.check(k <= free, 'started_within_free_slots', sig=['step'], info={'started': k})
    # (2) only queued uploads, each once
    for i in st_up:
        c.check(queued[i], 'started_upload_was_queued', sig=['step'])
        c.check(len(started[i]) == 1, 'started_once', sig=['step'])
        c.check(all(r['kind'] == '_initialize_upload' for r in started[i]), 'started_with_initialize_upload', sig=['step'])
    # (3) one per user: not two for one user, none for a user who is already being served
    owners = [users[i] for i in st_up]
    c.check(len(set(owners)) == len(owners), 'one_started_per_user', sig=['step'])
    for i in st_up:
        for m in ups:
            if m != i and users[m] == users[i]:
                c.check(Not(proc[m]), 'none_for_user_already_served', sig=['step'],
                        info={'started': i, 'processing': m})
    # (4) offline users never
    for i in st_up:
        c.check(Not(offline[users[i]]), 'never_to_offline_user', sig=['step'])
    # eligibility of a user: online-or-unknown, not being served, has a queued upload.  A queued
    # upload whose task slot is still occupied is C06's subject: its user is left out of the
    # "must be served" side (don't care), see docs/C05.md
    served = [Or(*[proc[m] for m in ups if users[m] == j]) for j in range(nu)]
    has_q = [Or(*[queued[m] for m in ups if users[m] == j and infl[m] is None]) for j in range(nu)]
    busy_slot = [any(infl[m] is not None for m in ups if users[m] == j) for j in range(nu)]
    eligible = [And(Not(offline[j]), Not(served[j]), has_q[j]) for j in range(nu)]
    got = [any(users[i] == j for i in st_up) for j in range(nu)]
    for j in range(nu):
        if got[j] or busy_slot[j]:
            continue
        # (5) priority: nobody of a lower class was preferred to an eligible user
        for i in st_up:
            c.check(Implies(eligible[j], cls[j] <= cls[users[i]]), 'highest_priority_first', sig=['step'],
                    info={'left_out_user': j, 'started_for_user': users[i]})
        # (6) progress: an eligible user is served while a slot is free
        c.check(Implies(eligible[j], k >= free), 'eligible_started_while_slot_free', sig=['step'],
                info={'left_out_user': j})
    c.reach('c05_step_checked')
    if st_up:
        c.reach('c05_step_started_some')


def _c06_step_obligations(c, dirs, T, state, rq, infl, started, locked):
    n = len(dirs)
    for i in range(n):
        t = T[i]
        kind = 'upload' if dirs[i] == 'U' else 'download'
        slot = t._transfer_task if dirs[i] == 'U' else t._remotely_queue_task
        if locked[i]:
            c.reach('c06_step_transition_in_progress')
            # abort / pause is waiting for the old task to end: nothing new may be started meanwhile
            c.check(not started[i], 'none_started_during_transition', sig=[kind], info={'transfer': i})
        if infl[i] is not None:
            c.reach('c06_step_occupied_slot')
            # a negotiation is in flight for this transfer: no second one, handle untouched
            c.check(not started[i], 'single_negotiation_in_flight', sig=[kind], info={'transfer': i})
            c.check(slot is infl[i], 'handle_not_overwritten', sig=[kind], info={'transfer': i})
        else:
            c.check(len(started[i]) <= 1, 'single_negotiation_in_flight', sig=[kind, 'same_cycle'])
            if started[i]:
                c.reach('c06_step_started')
                # cancelling the transfer must reach the task that was just created
                c.check(slot is started[i][0]['task'], 'handle_tracks_new_task', sig=[kind])
                c.check(started[i][0]['task'] in t.get_tasks(), 'handle_tracks_new_task', sig=[kind])


# ----------------------------------------------------------------------------------------------
# stub validation (prelude of C05 / C06): the stand-ins agree with the real thing on concrete inputs
# ----------------------------------------------------------------------------------------------

def validate_fakes():
    notes = []
    # SymList == list for concrete indices / slices
    for n in range(0, 5):
        base = list(range(n))
        sl = SymList(base)
        for k in range(-6, 7):
            if sl[:k] != base[:k] or sl[k:] != base[k:]:
                raise symex.HarnessError(f'SymList slice differs from list for n={n} k={k}')
        if list(reversed(sl)) != list(reversed(base)) or sl != base:
            raise symex.HarnessError('SymList differs from list')
    notes.append('SymList agrees with list on all slices of lists of length 0..4 with bounds -6..6')
    # pinned ranking agrees with "privileged > friend > online/away > unknown" on all 16 concrete users
    order = []
    for p in (False, True):
        for f in (False, True):
            for s in (UserStatus.UNKNOWN, UserStatus.ONLINE, UserStatus.AWAY, UserStatus.OFFLINE):
                order.append((p, f, s, rank_class(s, f, p)))
    for p, f, s, r in order:
        want = 3 if p else 2 if f else 1 if s in (UserStatus.ONLINE, UserStatus.AWAY) else 0
        import z3
        got = r if isinstance(r, int) else z3.simplify(r.e).as_long()
        if got != want:
            raise symex.HarnessError('rank_class table broken')
    notes.append('reference ranking table checked on the 16 concrete (privileged, friend, status) combinations')
    # the fake network behaves like Network.send_peer_messages in the two respects the claim relies on:
    # it suspends at least once and a cancellation propagates (nothing is delivered)
    loop = TLoop()
    net = FakeNetwork(loop, lambda what, u, p: ('ok', 0))

    async def sender():
        await net.send_peer_messages('u', 'm')
    t = loop.spawn(sender())
    loop.step()
    if t.done() or net.sent:
        raise symex.HarnessError('FakeNetwork.send_peer_messages did not suspend')
    t.cancel()
    loop.run_ready()
    if not t.cancelled() or net.sent or net.attempts[0]['status'] != 'cancelled':
        raise symex.HarnessError('FakeNetwork.send_peer_messages: cancellation did not propagate')
    t2 = loop.spawn(sender())
    loop.run_ready()
    if not t2.done() or len(net.sent) != 1:
        raise symex.HarnessError('FakeNetwork.send_peer_messages did not deliver')
    loop.cleanup()
    notes.append('FakeNetwork.send_peer_messages suspends once, delivers, and propagates cancellation')
    # the real TransferState classes still expose what SymState stands for
    t = Transfer('u', 'f', UP)
    for st in UP_STATES + DOWN_STATES:
        if TransferState.init_from_state(st, t).VALUE is not st:
            raise symex.HarnessError('TransferState.init_from_state / VALUE changed')
    notes.append('TransferState.init_from_state(s).VALUE is s for every state used')
    return notes
