"""symex core: native execution of the real aioslsk code on z3-backed proxy
values, depth-first path exploration by re-execution, obligations decided by
z3, counterexample models handed back for concrete replay.

Nothing in here knows about aioslsk.  See DESIGN.md §2.1.
"""
from __future__ import annotations

import hashlib
import time
from fractions import Fraction
from typing import Any, Callable, Optional

import z3

# --------------------------------------------------------------------------
# control flow signals.  They derive from SystemExit so that neither
# `except Exception` in the code under test nor asyncio.Task/Handle swallow them
# --------------------------------------------------------------------------


class EngineSignal(SystemExit):
    pass


class PathAbort(EngineSignal):
    """current path is infeasible / cut by an assumption"""


class BoundHit(EngineSignal):
    """a stated unwinding/size bound was reached; path is cut"""


class HarnessError(Exception):
    """the harness or the encoding is wrong; never a verdict"""


_CTX: Optional['Ctx'] = None


def ctx() -> 'Ctx':
    if _CTX is None:
        raise HarnessError('no active symex context')
    return _CTX


def active() -> bool:
    return _CTX is not None and _CTX.symbolic


# --------------------------------------------------------------------------
# helpers
# --------------------------------------------------------------------------


def _real_val(f) -> z3.ArithRef:
    if isinstance(f, float):
        fr = Fraction(f)
        return z3.Q(fr.numerator, fr.denominator)
    if isinstance(f, Fraction):
        return z3.Q(f.numerator, f.denominator)
    return z3.RealVal(f)


_THIS = __file__


def _ehash(e=None) -> int:
    """determinism guard: identity of a decision point = the code location (file,
    line) of the nearest frame outside this module.  (z3 AST hashes are not stable
    across re-executions because argument order depends on AST ids.)"""
    import sys
    f = sys._getframe(1)
    while f is not None and f.f_code.co_filename == _THIS:
        f = f.f_back
    if f is None:
        return 0
    return hash((f.f_code.co_filename, f.f_lineno)) & 0xffffffff


def zbool(v) -> z3.BoolRef:
    """anything truth-like -> z3 Bool (no forking)"""
    if isinstance(v, SBool):
        return v.e
    if isinstance(v, bool):
        return z3.BoolVal(v)
    if isinstance(v, z3.BoolRef):
        return v
    if isinstance(v, SInt):
        return v.e != 0
    if isinstance(v, (int,)):
        return z3.BoolVal(bool(v))
    raise HarnessError(f'cannot turn {type(v)} into a z3 Bool')


# --------------------------------------------------------------------------
# proxies
# --------------------------------------------------------------------------


class SBool:
    __slots__ = ('e',)

    def __init__(self, e):
        self.e = z3.simplify(e) if not isinstance(e, bool) else z3.BoolVal(e)

    def __bool__(self):
        if z3.is_true(self.e):
            return True
        if z3.is_false(self.e):
            return False
        return ctx().branch(self.e)

    def __and__(self, o):
        return SBool(z3.And(self.e, zbool(o)))

    __rand__ = __and__

    def __or__(self, o):
        return SBool(z3.Or(self.e, zbool(o)))

    __ror__ = __or__

    def __xor__(self, o):
        return SBool(z3.Xor(self.e, zbool(o)))

    __rxor__ = __xor__

    def __invert__(self):
        return SBool(z3.Not(self.e))

    def __eq__(self, o):
        if isinstance(o, (SBool, bool, z3.BoolRef)):
            return SBool(self.e == zbool(o))
        if isinstance(o, (int, SInt)):
            return SInt(z3.If(self.e, 1, 0)) == o
        return False

    def __ne__(self, o):
        r = self.__eq__(o)
        if isinstance(r, SBool):
            return ~r
        return not r

    def __hash__(self):
        return hash(bool(self))

    def __int__(self):
        return int(bool(self))

    def __index__(self):
        return int(bool(self))

    def __add__(self, o):
        return SInt(z3.If(self.e, 1, 0)) + o

    __radd__ = __add__

    def __repr__(self):
        return '<SBool>'

    __str__ = __repr__

    def __format__(self, spec):
        return '<SBool>'


def _is_num(o):
    return isinstance(o, (int, float, Fraction, SInt, SReal, SBool, bool))


def _arith(o, want_real: bool):
    """lift python/proxy number to a z3 arith expr (Int or Real)"""
    if isinstance(o, SReal):
        return o.e
    if isinstance(o, SInt):
        return z3.ToReal(o.e) if want_real else o.e
    if isinstance(o, SBool):
        e = z3.If(o.e, 1, 0)
        return z3.ToReal(e) if want_real else e
    if isinstance(o, bool):
        o = int(o)
    if isinstance(o, int):
        return z3.RealVal(o) if want_real else z3.IntVal(o)
    if isinstance(o, (float, Fraction)):
        return _real_val(o)
    raise TypeError(f'unsupported operand for symbolic arithmetic: {type(o)}')


def _wants_real(a, b):
    return isinstance(a, (SReal, float, Fraction)) or isinstance(b, (SReal, float, Fraction))


def _wrap(e):
    e = z3.simplify(e)
    if z3.is_int(e):
        return SInt(e)
    return SReal(e)


def _binop(fn):
    def op(self, o):
        if not _is_num(o):
            return NotImplemented
        r = _wants_real(self, o)
        return _wrap(fn(_arith(self, r), _arith(o, r)))

    def rop(self, o):
        if not _is_num(o):
            return NotImplemented
        r = _wants_real(self, o)
        return _wrap(fn(_arith(o, r), _arith(self, r)))
    return op, rop


def _cmpop(fn):
    def op(self, o):
        if not _is_num(o):
            return NotImplemented
        r = _wants_real(self, o)
        return SBool(fn(_arith(self, r), _arith(o, r)))
    return op


def _floordiv(a, b):
    # python floor division.  z3's Int div satisfies a = b*q + r with 0 <= r < |b|,
    # which is floor for b > 0; for b < 0 use floor(a/b) = floor((-a)/(-b)).
    if z3.is_int(a) and z3.is_int(b):
        return z3.If(b > 0, a / b, (-a) / (-b))
    return z3.ToReal(z3.ToInt(a / b))


def _pymod(a, b):
    if z3.is_int(a) and z3.is_int(b):
        # python: result has sign of divisor
        return a - b * _floordiv(a, b)
    raise TypeError('symbolic real modulo unsupported')


def _mul_lemmas(a, b, p):
    """for a non-linear product a*b add *valid* linear consequences for the
    constants registered in ctx().mul_hints (McCormick-style):
        a <= c and b >= 0  =>  a*b <= c*b        a >= c and b >= 0  =>  a*b >= c*b
    and symmetrically with the roles swapped.  They are tautologies of arithmetic, so
    the path condition is unchanged; they let the linear core refute queries that the
    non-linear engine would time out on."""
    c = _CTX
    if c is None or not c.symbolic or not c.mul_hints:
        return
    sa, sb = z3.simplify(a), z3.simplify(b)
    if z3.is_rational_value(sa) or z3.is_int_value(sa) or z3.is_rational_value(sb) or z3.is_int_value(sb):
        return
    lem = [z3.Implies(z3.And(a >= 0, b >= 0), p >= 0)]
    for k in c.mul_hints:
        for x, y in ((a, b), (b, a)):
            lem.append(z3.Implies(z3.And(x <= k, y >= 0), p <= k * y))
            lem.append(z3.Implies(z3.And(x >= k, y >= 0), p >= k * y))
    c.solver.add(*lem)


class _SNum:
    __slots__ = ('e',)

    def _check_zero_div(self, o):
        if isinstance(o, (int, float)):
            if o == 0:
                raise ZeroDivisionError('division by zero')
            return
        if isinstance(o, (SInt, SReal)):
            if bool(o == 0):
                raise ZeroDivisionError('division by zero')

    __add__, __radd__ = _binop(lambda a, b: a + b)
    __sub__, __rsub__ = _binop(lambda a, b: a - b)
    def __mul__(self, o):
        if not _is_num(o):
            return NotImplemented
        r = _wants_real(self, o)
        a, b = _arith(self, r), _arith(o, r)
        p = _wrap(a * b)
        _mul_lemmas(a, b, p.e)
        return p

    __rmul__ = __mul__

    def __truediv__(self, o):
        if not _is_num(o):
            return NotImplemented
        self._check_zero_div(o)
        return _wrap(_arith(self, True) / _arith(o, True))

    def __rtruediv__(self, o):
        if not _is_num(o):
            return NotImplemented
        self._check_zero_div(self)
        return _wrap(_arith(o, True) / _arith(self, True))

    def __floordiv__(self, o):
        if not _is_num(o):
            return NotImplemented
        self._check_zero_div(o)
        r = _wants_real(self, o)
        return _wrap(_floordiv(_arith(self, r), _arith(o, r)))

    def __rfloordiv__(self, o):
        if not _is_num(o):
            return NotImplemented
        self._check_zero_div(self)
        r = _wants_real(self, o)
        return _wrap(_floordiv(_arith(o, r), _arith(self, r)))

    def __mod__(self, o):
        if not _is_num(o):
            return NotImplemented
        self._check_zero_div(o)
        return _wrap(_pymod(_arith(self, False), _arith(o, False)))

    def __rmod__(self, o):
        if not _is_num(o):
            return NotImplemented
        self._check_zero_div(self)
        return _wrap(_pymod(_arith(o, False), _arith(self, False)))

    def __neg__(self):
        return _wrap(-self.e)

    def __pos__(self):
        return self

    def __abs__(self):
        return _wrap(z3.If(self.e >= 0, self.e, -self.e))

    __lt__ = _cmpop(lambda a, b: a < b)
    __le__ = _cmpop(lambda a, b: a <= b)
    __gt__ = _cmpop(lambda a, b: a > b)
    __ge__ = _cmpop(lambda a, b: a >= b)

    def __eq__(self, o):
        if not _is_num(o):
            return False
        r = _wants_real(self, o)
        return SBool(_arith(self, r) == _arith(o, r))

    def __ne__(self, o):
        if not _is_num(o):
            return True
        r = _wants_real(self, o)
        return SBool(_arith(self, r) != _arith(o, r))

    def __bool__(self):
        return bool(SBool(self.e != 0))

    def __repr__(self):
        return f'<{type(self).__name__}>'

    __str__ = __repr__

    def __format__(self, spec):
        return f'<{type(self).__name__}>'


class SInt(_SNum):
    __slots__ = ()

    def __init__(self, e):
        if isinstance(e, int):
            e = z3.IntVal(e)
        self.e = e

    def __hash__(self):
        return hash(ctx().concretize(self))

    def __index__(self):
        return ctx().concretize(self)

    def __int__(self):
        return ctx().concretize(self)

    def __float__(self):
        return float(ctx().concretize(self))

    def is_concrete(self):
        return z3.is_int_value(z3.simplify(self.e))


class SReal(_SNum):
    __slots__ = ()

    def __init__(self, e):
        if isinstance(e, (int, float, Fraction)):
            e = _real_val(e)
        self.e = e

    def __hash__(self):
        raise HarnessError('hash of a symbolic real')

    def __float__(self):
        raise HarnessError('float() of a symbolic real (C boundary reached)')

    def trunc(self) -> SInt:
        """int(x): truncation toward zero"""
        e = self.e
        return SInt(z3.simplify(z3.If(e >= 0, z3.ToInt(e), -z3.ToInt(-e))))

    def floor(self) -> SInt:
        return SInt(z3.simplify(z3.ToInt(self.e)))

    def ceil(self) -> SInt:
        return SInt(z3.simplify(-z3.ToInt(-self.e)))

    # math.floor / math.ceil / round() look these up on the type: a change that rounds differently must meet
    # the exact semantics, not a harness error
    def __floor__(self):
        return self.floor()

    def __ceil__(self):
        return self.ceil()

    def __round__(self, ndigits=None):
        if ndigits is not None:
            raise HarnessError('round(symbolic real, ndigits) is not modelled')
        f = z3.ToInt(self.e)
        d = self.e - z3.ToReal(f)
        half = z3.RealVal(1) / 2
        return SInt(z3.simplify(z3.If(d < half, f, z3.If(d > half, f + 1, z3.If(f % 2 == 0, f, f + 1)))))

    __trunc__ = None  # make math.trunc / int() fail loudly


def sym_int(v):
    """shim for builtins.int inside modules under test"""
    if isinstance(v, SReal):
        c = _CTX
        if c is not None and c.symbolic and c._check(v.e < 0) == 'unsat':
            return v.floor()   # exact: trunc == floor on non-negative values
        return v.trunc()
    if isinstance(v, SInt):
        return v
    if isinstance(v, SBool):
        return SInt(z3.If(v.e, 1, 0))
    return int(v)


def sym_min(*a, **kw):
    if len(a) == 1:
        a = tuple(a[0])
    if not any(isinstance(x, (SInt, SReal)) for x in a):
        return min(*a, **kw) if len(a) > 1 else a[0]
    r = a[0]
    for x in a[1:]:
        r = ite(x < r, x, r)
    return r


def sym_max(*a, **kw):
    if len(a) == 1:
        a = tuple(a[0])
    if not any(isinstance(x, (SInt, SReal)) for x in a):
        return max(*a, **kw) if len(a) > 1 else a[0]
    r = a[0]
    for x in a[1:]:
        r = ite(x > r, x, r)
    return r


def ite(c, a, b):
    """non-forking if-then-else over numbers/bools"""
    if isinstance(c, bool):
        return a if c else b
    c = zbool(c)
    if isinstance(a, (SBool, bool)) and isinstance(b, (SBool, bool)):
        return SBool(z3.If(c, zbool(a), zbool(b)))
    r = _wants_real(a, b)
    return _wrap(z3.If(c, _arith(a, r), _arith(b, r)))


def And(*cs):
    return SBool(z3.And(*[zbool(c) for c in cs])) if cs else SBool(True)


def Or(*cs):
    return SBool(z3.Or(*[zbool(c) for c in cs])) if cs else SBool(False)


def Not(c):
    return SBool(z3.Not(zbool(c)))


def Implies(a, b):
    return SBool(z3.Implies(zbool(a), zbool(b)))


# --------------------------------------------------------------------------
# context
# --------------------------------------------------------------------------


class Failure:
    def __init__(self, label, sig, model, info, decisions):
        self.label = label
        self.sig = sig
        self.model = model
        self.info = info
        self.decisions = decisions


class Stats:
    def __init__(self):
        self.paths = 0
        self.aborted_paths = 0
        self.bound_hits = 0
        self.queries = 0
        self.solver_s = 0.0
        self.obligations = 0
        self.discharged = 0
        self.refuted = 0
        self.inconclusive = 0
        self.unknown_branches = 0
        self.reach: dict[str, int] = {}
        self.labels: dict[str, list[int]] = {}   # label -> [obligations, discharged]
        self.samples: list = []

    def merge(self, o: 'Stats'):
        for k in ('paths', 'aborted_paths', 'bound_hits', 'queries', 'obligations', 'discharged',
                  'refuted', 'inconclusive', 'unknown_branches'):
            setattr(self, k, getattr(self, k) + getattr(o, k))
        self.solver_s += o.solver_s
        for k, v in o.reach.items():
            self.reach[k] = self.reach.get(k, 0) + v
        for k, v in o.labels.items():
            cur = self.labels.setdefault(k, [0, 0])
            cur[0] += v[0]
            cur[1] += v[1]
        if len(self.samples) < 6:
            self.samples.extend(o.samples[: 6 - len(self.samples)])


class Ctx:
    """one execution path.  symbolic=True: proxies + solver; symbolic=False:
    concrete replay from a model (dict name->python value)."""

    def __init__(self, explorer: Optional['Explorer'], prefix: list, symbolic: bool = True,
                 model: Optional[dict] = None, timeout_ms: int = 20000):
        self.explorer = explorer
        self.symbolic = symbolic
        self.prefix = prefix
        self.decisions: list = []
        self.pos = 0
        self.names: dict[str, int] = {}
        self.vars: list[tuple[str, Any, str]] = []  # (name, z3 expr, kind)
        self.model_in = model or {}
        self.concrete_failures: list = []
        self.concrete_checks = 0
        self.notes: list = []
        self.stats = explorer.stats if explorer else Stats()
        if symbolic:
            self.solver = z3.Solver()
            self.solver.set('timeout', timeout_ms)
            self._model = None  # cached model of the current path condition
        self.reached: set[str] = set()
        self.mul_hints: list = []

    # ---- naming -----------------------------------------------------------
    def _name(self, base: str) -> str:
        n = self.names.get(base, 0)
        self.names[base] = n + 1
        return base if n == 0 else f'{base}#{n}'

    # ---- fresh variables --------------------------------------------------
    def fresh_int(self, base: str, lo: Optional[int] = None, hi: Optional[int] = None):
        name = self._name(base)
        if not self.symbolic:
            v = self.model_in.get(name)
            if v is None:
                v = lo if lo is not None else (min(0, hi) if hi is not None else 0)
            return int(v)
        e = z3.Int(name)
        self.vars.append((name, e, 'int'))
        if lo is not None:
            self._add(e >= lo)
        if hi is not None:
            self._add(e <= hi)
        return SInt(e)

    def fresh_real(self, base: str, lo=None, hi=None):
        name = self._name(base)
        if not self.symbolic:
            v = self.model_in.get(name)
            if v is None:
                v = lo if lo is not None else 0
            if isinstance(v, str):
                v = Fraction(v)
            return float(v)
        e = z3.Real(name)
        self.vars.append((name, e, 'real'))
        if lo is not None:
            self._add(e >= _arith(lo, True))
        if hi is not None:
            self._add(e <= _arith(hi, True))
        return SReal(e)

    def fresh_bool(self, base: str):
        name = self._name(base)
        if not self.symbolic:
            return bool(self.model_in.get(name, False))
        e = z3.Bool(name)
        self.vars.append((name, e, 'bool'))
        return SBool(e)

    def fresh_bv(self, base: str, width: int):
        """raw z3 bit-vector (for SBytes/SFlag/SBV wrappers)"""
        name = self._name(base)
        if not self.symbolic:
            return int(self.model_in.get(name, 0))
        e = z3.BitVec(name, width)
        self.vars.append((name, e, 'bv'))
        return e

    # ---- solver plumbing --------------------------------------------------
    def _add(self, c):
        self.solver.add(c)
        if self._model is not None:
            try:
                if not z3.is_true(self._model.eval(c, model_completion=True)):
                    self._model = None
            except z3.Z3Exception:
                self._model = None

    def _check(self, *extra) -> str:
        t0 = time.perf_counter()
        self.stats.queries += 1
        if extra:
            self.solver.push()
            self.solver.add(*extra)
        r = self.solver.check()
        res = str(r)
        m = None
        if res == 'sat':
            m = self.solver.model()
        if extra:
            self.solver.pop()
        self.stats.solver_s += time.perf_counter() - t0
        self._last_model = m
        return res

    def _eval_cached(self, cond) -> Optional[bool]:
        if self._model is None:
            return None
        try:
            v = self._model.eval(cond, model_completion=True)
        except z3.Z3Exception:
            return None
        if z3.is_true(v):
            return True
        if z3.is_false(v):
            return False
        return None

    # ---- branching --------------------------------------------------------
    def branch(self, cond: z3.BoolRef) -> bool:
        if not self.symbolic:
            raise HarnessError('symbolic branch in concrete mode')
        h = _ehash(cond)
        if self.pos < len(self.prefix):
            kind, val, ph = self.prefix[self.pos]
            if kind != 'b' or ph != h:
                raise HarnessError(f'non-deterministic replay at decision {self.pos}: '
                                   f'expected {kind}/{ph}, got b/{h} for {cond}')
            self.pos += 1
            self.decisions.append(('b', val, h))
            self._add(cond if val else z3.Not(cond))
            return val
        # new decision
        known = self._eval_cached(cond)
        feas_t = feas_f = None
        model_t = model_f = None
        if known is True:
            feas_t, model_t = 'sat', self._model
        elif known is False:
            feas_f, model_f = 'sat', self._model
        if feas_t is None:
            feas_t = self._check(cond)
            model_t = self._last_model
        if feas_f is None:
            feas_f = self._check(z3.Not(cond))
            model_f = self._last_model
        if feas_t == 'unknown' or feas_f == 'unknown':
            self.stats.unknown_branches += 1
        t_ok = feas_t != 'unsat'
        f_ok = feas_f != 'unsat'
        if not t_ok and not f_ok:
            raise PathAbort('path condition unsatisfiable')
        if t_ok and f_ok:
            take = True
            self.explorer.push(self.decisions + [('b', False, h)])
        else:
            take = t_ok
        self.pos += 1
        self.decisions.append(('b', take, h))
        self.solver.add(cond if take else z3.Not(cond))
        self._model = model_t if take else model_f
        return take

    def concretize(self, v, limit: int = 64) -> int:
        """sound concretisation by forking over every feasible value"""
        if isinstance(v, int):
            return v
        if not self.symbolic:
            raise HarnessError('concretize in concrete mode')
        e = v.e if isinstance(v, (SInt,)) else v
        s = z3.simplify(e)
        if z3.is_int_value(s):
            return s.as_long()
        if z3.is_bv_value(s):
            return s.as_long()
        h = _ehash(e)
        n = 0
        while True:
            n += 1
            if n > limit:
                raise HarnessError(f'concretize: more than {limit} feasible values for {e}')
            if self.pos < len(self.prefix):
                kind, val, ph = self.prefix[self.pos]
                if kind not in ('eq', 'ne') or ph != h:
                    raise HarnessError(f'non-deterministic replay at decision {self.pos} (concretize)')
                self.pos += 1
                self.decisions.append((kind, val, h))
                if kind == 'eq':
                    self._add(e == val)
                    return val
                self._add(e != val)
                continue
            if self._model is None:
                r = self._check()
                if r == 'unsat':
                    raise PathAbort('infeasible')
                if r == 'unknown':
                    raise HarnessError('concretize: solver unknown')
                self._model = self._last_model
            mv = self._model.eval(e, model_completion=True)
            val = mv.as_long()
            # is another value feasible?
            r = self._check(e != val)
            if r == 'unknown':
                raise HarnessError('concretize: solver unknown')
            if r == 'sat':
                self.explorer.push(self.decisions + [('ne', val, h)])
            self.pos += 1
            self.decisions.append(('eq', val, h))
            self._add(e == val)
            return val

    def choose(self, n: int, base: str = 'choice') -> int:
        """finite discriminant 0..n-1 (forks)"""
        v = self.fresh_int(base, 0, n - 1)
        if not self.symbolic:
            return v
        return self.concretize(v, limit=max(64, n + 1))

    def pick(self, seq, base: str = 'pick'):
        seq = list(seq)
        return seq[self.choose(len(seq), base)]

    # ---- assumptions / obligations ---------------------------------------
    def assume(self, cond):
        if not self.symbolic:
            if not bool(cond):
                raise PathAbort('assumption false in concrete replay')
            return
        if isinstance(cond, bool):
            if not cond:
                raise PathAbort('assume(False)')
            return
        c = zbool(cond)
        self._add(c)
        if self._model is None:
            r = self._check()
            if r == 'unsat':
                raise PathAbort('assumption infeasible')
            if r == 'sat':
                self._model = self._last_model

    def reach(self, label: str):
        self.reached.add(label)
        if self.symbolic:
            self.stats.reach[label] = self.stats.reach.get(label, 0) + 1

    def note(self, *a):
        self.notes.append(a)

    def check(self, cond, label: str, sig=None, info=None) -> bool:
        """obligation.  Returns True when it holds (on this path, for all
        values).  On refutation the path continues under `cond`."""
        if not self.symbolic:
            self.concrete_checks += 1
            ok = bool(cond)
            if not ok:
                self.concrete_failures.append((label, sig, info))
            return ok
        st = self.stats
        st.obligations += 1
        lab = st.labels.setdefault(label, [0, 0])
        lab[0] += 1
        if isinstance(cond, bool):
            if cond:
                st.discharged += 1
                lab[1] += 1
                return True
            # concretely false on a feasible path
            if self._model is None:
                r = self._check()
                if r == 'unsat':
                    raise PathAbort('infeasible')
                self._model = self._last_model
            if self._model is None:
                st.inconclusive += 1
                return False
            st.refuted += 1
            self.explorer.failure(self, label, sig, self._model, info)
            return False
        c = zbool(cond)
        r = self._check(z3.Not(c))
        if r == 'unsat':
            st.discharged += 1
            lab[1] += 1
            return True
        if r == 'unknown':
            st.inconclusive += 1
            self.explorer.inconclusive.append((label, sig))
            return False
        st.refuted += 1
        self.explorer.failure(self, label, sig, self._last_model, info)
        # continue under the obligation so that later obligations are still looked at
        self._add(c)
        r = self._check()
        if r == 'unsat':
            raise PathAbort('obligation never holds on this path')
        self._model = self._last_model if r == 'sat' else None
        return False

    def witness(self, label: str):
        """reachability twin: the path condition here must be satisfiable"""
        if not self.symbolic:
            return
        if self._model is None:
            r = self._check()
            if r != 'sat':
                if r == 'unsat':
                    raise PathAbort('infeasible')
                return
            self._model = self._last_model
        self.explorer.witnessed.add(label)

    # ---- model extraction -------------------------------------------------
    def model_values(self, model) -> dict:
        out = {}
        for name, e, kind in self.vars:
            v = model.eval(e, model_completion=True)
            if kind == 'int':
                out[name] = v.as_long()
            elif kind == 'bool':
                out[name] = bool(z3.is_true(v))
            elif kind == 'bv':
                out[name] = v.as_long()
            elif kind == 'real':
                if z3.is_rational_value(v):
                    out[name] = str(Fraction(v.numerator_as_long(), v.denominator_as_long()))
                else:  # algebraic
                    out[name] = str(Fraction(v.approx(20).numerator_as_long(), v.approx(20).denominator_as_long()))
        return out

    def sample(self):
        """record path condition sample with a model (for evidence)"""
        if not self.symbolic or len(self.stats.samples) >= 6:
            return
        if self._model is None:
            return
        mv = self.model_values(self._model)
        self.stats.samples.append({'decisions': len(self.decisions), 'model': dict(list(mv.items())[:12])})


class Explorer:
    def __init__(self, fn: Callable, params: dict, name: str, max_paths: int = 100000,
                 timeout_s: float = 3600.0, solver_timeout_ms: int = 20000):
        self.fn = fn
        self.params = params
        self.name = name
        self.max_paths = max_paths
        self.timeout_s = timeout_s
        self.solver_timeout_ms = solver_timeout_ms
        self.stats = Stats()
        self.pending: list[list] = []
        self.failures: list[Failure] = []
        self.failure_keys: dict = {}
        self.inconclusive: list = []
        self.witnessed: set[str] = set()
        self.exhausted = False
        self.errors: list[str] = []

    def push(self, prefix: list):
        self.pending.append(prefix)

    def failure(self, c: Ctx, label, sig, model, info):
        key = (label, repr(sig))
        n = self.failure_keys.get(key, 0)
        self.failure_keys[key] = n + 1
        if n >= 1:
            return
        self.failures.append(Failure(label, sig, c.model_values(model), info, len(c.decisions)))

    def run(self):
        global _CTX
        t0 = time.perf_counter()
        self.pending = [[]]
        while self.pending:
            if self.stats.paths >= self.max_paths or time.perf_counter() - t0 > self.timeout_s:
                self.exhausted = False
                return self
            prefix = self.pending.pop()
            c = Ctx(self, prefix, True, timeout_ms=self.solver_timeout_ms)
            _CTX = c
            try:
                self.fn(c, **self.params)
                self.stats.paths += 1
                c.sample()
            except PathAbort:
                self.stats.aborted_paths += 1
            except BoundHit:
                self.stats.bound_hits += 1
                self.stats.paths += 1
            finally:
                _CTX = None
        self.exhausted = True
        return self

    def replay(self, model: dict):
        """concrete run of the same harness on a model; returns list of failed labels"""
        global _CTX
        c = Ctx(None, [], False, model=model)
        _CTX = c
        try:
            self.fn(c, **self.params)
        except PathAbort:
            return c, 'aborted'
        except BoundHit:
            return c, 'bound'
        finally:
            _CTX = None
        return c, 'ok'


def source_hash(obj) -> str:
    import inspect
    try:
        src = inspect.getsource(obj)
    except Exception:
        return 'n/a'
    return hashlib.sha256(src.encode()).hexdigest()[:12]
