"""proxies used by props/c08.py (entitlement): a bit-vector flag value, a
membership container with one symbolic Bool per candidate member, and a short
symbolic string (tuple of symbolic characters over a finite alphabet, a character
being a letter class plus an upper-case bit) together with a `str` subclass that
lets `phrase in path` reach the solver when the phrase is symbolic and the path is
concrete.

Nothing here knows about aioslsk.  All proxies fail loudly (TypeError /
AttributeError / HarnessError) when the code under test applies an operation that
is not modelled."""
from __future__ import annotations

import z3

from engine import symex
from engine.symex import SBool, HarnessError


# --------------------------------------------------------------------------
# SFlag: value of an enum.IntFlag / enum.Flag as BV(width)
# --------------------------------------------------------------------------

class SFlag:
    __slots__ = ('e', 'w')

    def __init__(self, e, width: int = 8):
        self.w = width
        if isinstance(e, int):
            e = z3.BitVecVal(e & ((1 << width) - 1), width)
        self.e = e

    def _lift(self, o):
        if isinstance(o, SFlag):
            return o.e
        if isinstance(o, bool):
            return None
        if isinstance(o, int):   # IntFlag members are ints
            return z3.BitVecVal(int(o) & ((1 << self.w) - 1), self.w)
        v = getattr(o, 'value', None)   # plain enum.Flag member
        if isinstance(v, int):
            return z3.BitVecVal(v & ((1 << self.w) - 1), self.w)
        return None

    def _bin(self, o, fn):
        b = self._lift(o)
        if b is None:
            return NotImplemented
        return SFlag(z3.simplify(fn(self.e, b)), self.w)

    def __and__(self, o):
        return self._bin(o, lambda a, b: a & b)

    __rand__ = __and__

    def __or__(self, o):
        return self._bin(o, lambda a, b: a | b)

    __ror__ = __or__

    def __xor__(self, o):
        return self._bin(o, lambda a, b: a ^ b)

    __rxor__ = __xor__

    def __invert__(self):
        return SFlag(z3.simplify(~self.e), self.w)

    def __eq__(self, o):
        b = self._lift(o)
        if b is None:
            return False
        return SBool(self.e == b)

    def __ne__(self, o):
        b = self._lift(o)
        if b is None:
            return True
        return SBool(self.e != b)

    def __contains__(self, o):
        b = self._lift(o)
        if b is None:
            raise TypeError(f'unsupported operand for `in` on a symbolic flag: {type(o)}')
        return bool(SBool((self.e & b) == b))

    def __bool__(self):
        return bool(SBool(self.e != 0))

    def has(self, bit: int) -> SBool:
        """non-forking test (for oracles)"""
        return SBool((self.e & z3.BitVecVal(bit, self.w)) != 0)

    def __hash__(self):
        raise HarnessError('hash of a symbolic flag value')

    def __int__(self):
        return symex.ctx().concretize(z3.BV2Int(self.e), limit=256)

    __index__ = __int__

    def __repr__(self):
        return '<SFlag>'

    __str__ = __repr__

    def __format__(self, spec):
        return '<SFlag>'


def flag_has(v, bit: int):
    """oracle helper working in both modes"""
    if isinstance(v, SFlag):
        return v.has(bit)
    return bool(int(v) & bit)


# --------------------------------------------------------------------------
# SymMembers: a set / list of names whose membership bits are symbolic
# --------------------------------------------------------------------------

class SymMembers:
    """container over a fixed universe of concrete names; `x in s` forks on the
    membership bit of x (lazily: only names the code asks about are decided).
    Supports what aioslsk applies to `settings.users.friends` (a set) and to
    `SharedDirectory.users` (a list)."""

    def __init__(self, bits: dict):
        self.bits = dict(bits)   # name -> SBool | bool  (insertion order = iteration order)

    # -- oracle access (no fork) --
    def has(self, name):
        return self.bits.get(name, False)

    # -- what the code under test uses --
    def __contains__(self, name):
        b = self.bits.get(name, False)
        return b if isinstance(b, bool) else bool(b)

    def __iter__(self):
        for n, b in list(self.bits.items()):
            if (b if isinstance(b, bool) else bool(b)):
                yield n

    def __len__(self):
        return sum(1 for _ in self)

    def __bool__(self):
        for _ in self:
            return True
        return False

    def copy(self):
        return SymMembers(self.bits)

    __copy__ = copy

    def _other_bits(self, o):
        if isinstance(o, SymMembers):
            return o.bits
        if isinstance(o, (set, frozenset, list, tuple)):
            return {n: True for n in o}
        return None

    def _zip(self, o, fn):
        ob = self._other_bits(o)
        if ob is None:
            return NotImplemented
        out = {}
        for n in list(self.bits) + [n for n in ob if n not in self.bits]:
            out[n] = _simp(fn(_z(self.bits.get(n, False)), _z(ob.get(n, False))))
        return SymMembers(out)

    def __sub__(self, o):
        return self._zip(o, lambda a, b: z3.And(a, z3.Not(b)))

    def __rsub__(self, o):
        return self._zip(o, lambda a, b: z3.And(b, z3.Not(a)))

    def __or__(self, o):
        return self._zip(o, lambda a, b: z3.Or(a, b))

    __ror__ = __or__

    def __and__(self, o):
        return self._zip(o, lambda a, b: z3.And(a, b))

    __rand__ = __and__

    def __eq__(self, o):
        ob = self._other_bits(o)
        if ob is None:
            return False
        names = list(self.bits) + [n for n in ob if n not in self.bits]
        return SBool(z3.And(*[_z(self.bits.get(n, False)) == _z(ob.get(n, False)) for n in names])) if names else True

    def __ne__(self, o):
        r = self.__eq__(o)
        return (not r) if isinstance(r, bool) else ~r

    __hash__ = None

    # mutation through the public container API
    def add(self, name):
        self.bits[name] = True

    append = add

    def discard(self, name):
        if name in self.bits:
            self.bits[name] = False

    def remove(self, name):
        if name not in self:
            raise KeyError(name)
        self.bits[name] = False

    def __repr__(self):
        return '<SymMembers>'


def _z(b):
    return b.e if isinstance(b, SBool) else z3.BoolVal(bool(b))


def _simp(e):
    s = z3.simplify(e)
    if z3.is_true(s):
        return True
    if z3.is_false(s):
        return False
    return SBool(s)


def members_has(container, name):
    """oracle helper working in both modes (no fork)"""
    if isinstance(container, SymMembers):
        return container.has(name)
    return name in container


# --------------------------------------------------------------------------
# SPhrase: short string with symbolic characters;  PStr: concrete str that
# understands `SPhrase in PStr`
# --------------------------------------------------------------------------

class Alphabet:
    """finite alphabet split into case classes: `cased` holds the lower-case form of
    every letter that has a distinct 1:1 upper-case form, `uncased` the rest.  A
    symbolic character is (class index: z3 Int, upper: z3 Bool | bool)."""

    def __init__(self, cased: str, uncased: str):
        for ch in cased:
            if not (len(ch.upper()) == 1 and ch.upper() != ch and ch.upper().lower() == ch and ch.lower() == ch
                    and ch.casefold() == ch and ch.upper().casefold() == ch):
                raise HarnessError(f'{ch!r} has no clean 1:1 case pair')
        for ch in uncased:
            if ch.lower() != ch or ch.upper() != ch or ch.casefold() != ch:
                raise HarnessError(f'{ch!r} is cased')
        self.cased, self.uncased = cased, uncased
        self.classes = cased + uncased
        self.nc = len(cased)
        self.index = {}
        for k, ch in enumerate(self.classes):
            self.index[ch] = (k, False)
            if k < self.nc:
                self.index[ch.upper()] = (k, True)

    def __len__(self):
        return len(self.classes)

    def chars(self):
        return self.classes + self.cased.upper()

    def char(self, k: int, upper: bool) -> str:
        ch = self.classes[k if 0 <= k < len(self.classes) else 0]
        return ch.upper() if upper and k < self.nc else ch


def _band(*xs):
    out = []
    for x in xs:
        if x is True:
            continue
        if x is False:
            return False
        out.append(x)
    if not out:
        return True
    return out[0] if len(out) == 1 else z3.And(*out)


def _zb(x):
    return z3.BoolVal(x) if isinstance(x, bool) else x


def _bnot(x):
    return (not x) if isinstance(x, bool) else z3.Not(x)


class SPhrase:
    """concrete length; each character = (class index expr, upper flag).  The creator
    constrains 0 <= index < len(alphabet) and upper => index < alphabet.nc."""

    def __init__(self, chars, alphabet: Alphabet):
        self.chars = list(chars)
        self.alphabet = alphabet
        self._lower = None
        self._upper = None
        self._occ = {}

    def lower(self):
        if self._lower is None:
            self._lower = SPhrase([(b, False) for b, _ in self.chars], self.alphabet)
            self._lower._lower = self._lower
        return self._lower

    casefold = lower

    def upper(self):
        if self._upper is None:
            self._upper = SPhrase([(b, b < self.alphabet.nc) for b, _ in self.chars], self.alphabet)
            self._upper._upper = self._upper
        return self._upper

    def __len__(self):
        return len(self.chars)

    def __bool__(self):
        return bool(self.chars)

    def _char_is(self, j, ch):
        """python bool or z3 Bool: character j equals the concrete character ch"""
        hit = self.alphabet.index.get(ch)
        if hit is None:
            return False
        k, up = hit
        b, u = self.chars[j]
        if k >= self.alphabet.nc:
            return b == k
        return _band(b == k, u if up else _bnot(u))

    def __eq__(self, o):
        if isinstance(o, str):
            if len(o) != len(self.chars):
                return False
            r = _band(*[self._char_is(j, ch) for j, ch in enumerate(o)])
            return r if isinstance(r, bool) else SBool(r)
        if isinstance(o, SPhrase):
            if len(o.chars) != len(self.chars):
                return False
            parts = []
            for (b1, u1), (b2, u2) in zip(self.chars, o.chars):
                parts.append(b1 == b2)
                parts.append((u1 == u2) if isinstance(u1, bool) and isinstance(u2, bool) else (_zb(u1) == _zb(u2)))
            r = _band(*parts)
            return r if isinstance(r, bool) else SBool(r)
        return False

    def __ne__(self, o):
        r = self.__eq__(o)
        return (not r) if isinstance(r, bool) else ~r

    def __hash__(self):
        raise HarnessError('hash of a symbolic phrase')

    def occurs_in(self, hay: str):
        """python bool or z3 Bool: this phrase occurs in the concrete string `hay`"""
        hay = str.__str__(hay)
        r = self._occ.get(hay)
        if r is not None:
            return r
        m, n = len(self.chars), len(hay)
        if m == 0:
            r = True
        else:
            alts = []
            r = None
            for i in range(0, n - m + 1):
                a = _band(*[self._char_is(j, hay[i + j]) for j in range(m)])
                if a is True:
                    r = True
                    break
                if a is not False:
                    alts.append(a)
            if r is None:
                r = False if not alts else (alts[0] if len(alts) == 1 else z3.Or(*alts))
        self._occ[hay] = r
        return r

    def __repr__(self):
        return '<SPhrase>'

    __str__ = __repr__

    def __format__(self, spec):
        return '<SPhrase>'


class PStr(str):
    """a concrete str (same characters, real str behaviour) whose `in` operator
    accepts a symbolic phrase on the left; lower/upper/casefold keep the wrapper"""

    def __contains__(self, item):
        if isinstance(item, SPhrase):
            r = item.occurs_in(self)
            return r if isinstance(r, bool) else bool(SBool(r))
        return str.__contains__(self, item)

    def lower(self):
        return PStr(str.lower(self))

    def upper(self):
        return PStr(str.upper(self))

    def casefold(self):
        return PStr(str.casefold(self))

    def find(self, sub, *a):
        if isinstance(sub, SPhrase):
            raise TypeError('str.find with a symbolic phrase is not modelled')
        return str.find(self, sub, *a)

    def count(self, sub, *a):
        if isinstance(sub, SPhrase):
            raise TypeError('str.count with a symbolic phrase is not modelled')
        return str.count(self, sub, *a)


def phrase_ci_in(phrase, hay: str):
    """reference: `phrase` occurs in `hay` ignoring letter case. symbolic -> SBool;
    concrete -> bool"""
    if isinstance(phrase, SPhrase):
        r = phrase.lower().occurs_in(hay.lower())
        return SBool(z3.BoolVal(r) if isinstance(r, bool) else r)
    return phrase.lower() in hay.lower()


def const_phrase(text: str, alphabet: Alphabet) -> SPhrase:
    """an SPhrase with constant characters (prelude validation)"""
    chars = []
    for ch in text:
        k, up = alphabet.index[ch]
        chars.append((z3.IntVal(k), up))
    return SPhrase(chars, alphabet)
