"""proxies used by props/c08.py (entitlement): a bit-vector flag value, a
membership container with one symbolic Bool per candidate member, a `str` subclass
that lets string operations with a symbolic argument (an engine.sstr.SStr phrase)
on a concrete path reach the solver, and a dict that can be asked for a symbolic key.

Nothing here knows about aioslsk.  All proxies fail loudly (TypeError /
AttributeError / HarnessError) when the code under test applies an operation that
is not modelled."""
from __future__ import annotations

import z3

from engine import symex, sstr
from engine.symex import SBool, HarnessError


# --------------------------------------------------------------------------
# SFlag: value of an enum.IntFlag / enum.Flag as BV(width)
# --------------------------------------------------------------------------

class SFlag:
    __slots__ = ('e', 'w')

    def __init__(self, e, width: int = 8):
        self.w = width
        if isinstance(e, int):
            e = z3.BitVecVal(e & ((1 << width) - 1), width)
        self.e = e

    def _lift(self, o):
        if isinstance(o, SFlag):
            return o.e
        if isinstance(o, bool):
            return None
        if isinstance(o, int):   # IntFlag members are ints
            return z3.BitVecVal(int(o) & ((1 << self.w) - 1), self.w)
        v = getattr(o, 'value', None)   # plain enum.Flag member
        if isinstance(v, int):
            return z3.BitVecVal(v & ((1 << self.w) - 1), self.w)
        return None

    def _bin(self, o, fn):
        b = self._lift(o)
        if b is None:
            return NotImplemented
        return SFlag(z3.simplify(fn(self.e, b)), self.w)

    def __and__(self, o):
        return self._bin(o, lambda a, b: a & b)

    __rand__ = __and__

    def __or__(self, o):
        return self._bin(o, lambda a, b: a | b)

    __ror__ = __or__

    def __xor__(self, o):
        return self._bin(o, lambda a, b: a ^ b)

    __rxor__ = __xor__

    def __invert__(self):
        return SFlag(z3.simplify(~self.e), self.w)

    def __eq__(self, o):
        b = self._lift(o)
        if b is None:
            return False
        return SBool(self.e == b)

    def __ne__(self, o):
        b = self._lift(o)
        if b is None:
            return True
        return SBool(self.e != b)

    def __contains__(self, o):
        b = self._lift(o)
        if b is None:
            raise TypeError(f'unsupported operand for `in` on a symbolic flag: {type(o)}')
        return bool(SBool((self.e & b) == b))

    def __bool__(self):
        return bool(SBool(self.e != 0))

    def has(self, bit: int) -> SBool:
        """non-forking test (for oracles)"""
        return SBool((self.e & z3.BitVecVal(bit, self.w)) != 0)

    def __hash__(self):
        raise HarnessError('hash of a symbolic flag value')

    def __int__(self):
        return symex.ctx().concretize(z3.BV2Int(self.e), limit=256)

    __index__ = __int__

    def __repr__(self):
        return '<SFlag>'

    __str__ = __repr__

    def __format__(self, spec):
        return '<SFlag>'


def flag_has(v, bit: int):
    """oracle helper working in both modes"""
    if isinstance(v, SFlag):
        return v.has(bit)
    return bool(int(v) & bit)


# --------------------------------------------------------------------------
# SymMembers: a set / list of names whose membership bits are symbolic
# --------------------------------------------------------------------------

class SymMembers:
    """container over a fixed universe of concrete names; `x in s` forks on the
    membership bit of x (lazily: only names the code asks about are decided).
    Supports what aioslsk applies to `settings.users.friends` (a set) and to
    `SharedDirectory.users` (a list)."""

    def __init__(self, bits: dict):
        self.bits = dict(bits)   # name -> SBool | bool  (insertion order = iteration order)

    # -- oracle access (no fork) --
    def has(self, name):
        return self.bits.get(name, False)

    # -- what the code under test uses --
    def __contains__(self, name):
        b = self.bits.get(name, False)
        return b if isinstance(b, bool) else bool(b)

    def __iter__(self):
        for n, b in list(self.bits.items()):
            if (b if isinstance(b, bool) else bool(b)):
                yield n

    def __len__(self):
        return sum(1 for _ in self)

    def __bool__(self):
        for _ in self:
            return True
        return False

    def copy(self):
        return SymMembers(self.bits)

    __copy__ = copy

    def _other_bits(self, o):
        if isinstance(o, SymMembers):
            return o.bits
        if isinstance(o, (set, frozenset, list, tuple)):
            return {n: True for n in o}
        return None

    def _zip(self, o, fn):
        ob = self._other_bits(o)
        if ob is None:
            return NotImplemented
        out = {}
        for n in list(self.bits) + [n for n in ob if n not in self.bits]:
            out[n] = _simp(fn(_z(self.bits.get(n, False)), _z(ob.get(n, False))))
        return SymMembers(out)

    def __sub__(self, o):
        return self._zip(o, lambda a, b: z3.And(a, z3.Not(b)))

    def __rsub__(self, o):
        return self._zip(o, lambda a, b: z3.And(b, z3.Not(a)))

    def __or__(self, o):
        return self._zip(o, lambda a, b: z3.Or(a, b))

    __ror__ = __or__

    def __and__(self, o):
        return self._zip(o, lambda a, b: z3.And(a, b))

    __rand__ = __and__

    def __eq__(self, o):
        ob = self._other_bits(o)
        if ob is None:
            return False
        names = list(self.bits) + [n for n in ob if n not in self.bits]
        return SBool(z3.And(*[_z(self.bits.get(n, False)) == _z(ob.get(n, False)) for n in names])) if names else True

    def __ne__(self, o):
        r = self.__eq__(o)
        return (not r) if isinstance(r, bool) else ~r

    __hash__ = None

    # mutation through the public container API
    def add(self, name):
        self.bits[name] = True

    append = add

    def discard(self, name):
        if name in self.bits:
            self.bits[name] = False

    def remove(self, name):
        if name not in self:
            raise KeyError(name)
        self.bits[name] = False

    def __repr__(self):
        return '<SymMembers>'


def _z(b):
    return b.e if isinstance(b, SBool) else z3.BoolVal(bool(b))


def _simp(e):
    s = z3.simplify(e)
    if z3.is_true(s):
        return True
    if z3.is_false(s):
        return False
    return SBool(s)


def members_has(container, name):
    """oracle helper working in both modes (no fork)"""
    if isinstance(container, SymMembers):
        return container.has(name)
    return name in container


# --------------------------------------------------------------------------
# strings: the server-excluded phrase is an engine.sstr.SStr (symbolic characters over a
# finite alphabet; lower/upper/split/strip/regex through engine.sstr / engine.reshim).
# PStr: a concrete str that understands a symbolic string as argument;  SymKeyDict: a
# dict with plain str keys that can be asked for a symbolic key.
# --------------------------------------------------------------------------

def _symbolic(x) -> bool:
    return isinstance(x, sstr.SStr) or (isinstance(x, str) and sstr.has_sym(x))


class PStr(str):
    """a concrete str (same characters, real str behaviour).  Where CPython would hand a
    foreign / placeholder-carrying argument to C code (`sub in s`, find, count, startswith,
    split, replace ...), the call is answered by engine.sstr on the lifted string, i.e.
    decided by the solver; lower/upper/casefold/strip keep the wrapper."""

    def _s(self):
        return sstr.SStr(tuple(str.__str__(self)))

    def __contains__(self, item):
        if _symbolic(item):
            return self._s().__contains__(sstr.lift(item))
        return str.__contains__(self, item)

    def lower(self):
        return PStr(str.lower(self))

    def upper(self):
        return PStr(str.upper(self))

    def casefold(self):
        return PStr(str.casefold(self))

    def strip(self, *a):
        return PStr(str.strip(self, *a))

    def __eq__(self, o):
        if _symbolic(o):
            return self._s() == sstr.lift(o)
        return str.__eq__(self, o)

    def __ne__(self, o):
        if _symbolic(o):
            return self._s() != sstr.lift(o)
        return str.__ne__(self, o)

    __hash__ = str.__hash__


def _delegate(name):
    real = getattr(str, name)

    def method(self, *a, **kw):
        if any(_symbolic(x) or (isinstance(x, tuple) and any(_symbolic(y) for y in x)) for x in a):
            return getattr(self._s(), name)(*a, **kw)
        return real(self, *a, **kw)
    method.__name__ = name
    return method


for _n in ('find', 'rfind', 'index', 'rindex', 'count', 'startswith', 'endswith', 'split', 'rsplit', 'partition',
           'rpartition', 'replace', 'removeprefix', 'removesuffix'):
    setattr(PStr, _n, _delegate(_n))


class SymKeyDict(dict):
    """dict with plain str keys (real hashing for them) that can also be asked for a symbolic
    key: `k in d` is ONE solver decision "k equals some key of that length"; `d[k]` / `get`
    decide key by key.  Every outcome is a fork through the engine, so each path has one fixed
    answer, exactly the answer CPython gives for every concrete key satisfying the path."""

    def _candidates(self, key):
        n = len(key)
        return [k for k in dict.keys(self) if isinstance(k, str) and len(k) == n]

    def __contains__(self, key):
        if not _symbolic(key):
            return dict.__contains__(self, key)
        key = sstr.lift(key)
        return sstr._decide(sstr._or([key._eq_at(0, tuple(k)) for k in self._candidates(key)]))

    def _find(self, key):
        key = sstr.lift(key)
        for k in self._candidates(key):
            if sstr._decide(key._eq_at(0, tuple(k))):
                return k
        return None

    def __getitem__(self, key):
        if not _symbolic(key):
            return dict.__getitem__(self, key)
        k = self._find(key)
        if k is None:
            raise KeyError(key)
        return dict.__getitem__(self, k)

    def get(self, key, default=None):
        if not _symbolic(key):
            return dict.get(self, key, default)
        k = self._find(key)
        return default if k is None else dict.__getitem__(self, k)

    def _refuse(self, key, *a, **kw):
        if _symbolic(key):
            raise HarnessError('writing a symbolic key into the term map is not modelled')

    def __setitem__(self, key, value):
        self._refuse(key)
        dict.__setitem__(self, key, value)

    def __delitem__(self, key):
        self._refuse(key)
        dict.__delitem__(self, key)

    def setdefault(self, key, default=None):
        self._refuse(key)
        return dict.setdefault(self, key, default)

    def pop(self, key, *a):
        self._refuse(key)
        return dict.pop(self, key, *a)


def phrase_ci_in(phrase, hay: str):
    """reference: `phrase` occurs in `hay` ignoring letter case.  symbolic -> bool | SBool
    (never forks); concrete -> bool"""
    if isinstance(phrase, sstr.SStr):
        h = sstr.SStr(tuple(hay.lower()))
        pc = sstr._chars(phrase.lower())
        return sstr._sb(sstr._or([h._eq_at(i, pc) for i in range(len(h) - len(pc) + 1)]))
    return phrase.lower() in hay.lower()
