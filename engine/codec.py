"""codec: byte-level proxies and C-boundary stubs for aioslsk.protocol (DESIGN §2.2/§2.3).

What runs is the REAL code of aioslsk.protocol.primitives / messages / obfuscation and
DataConnection.encode_message_data / decode_message_data.  This module only supplies

* proxies for the values that flow through it
    SWord   integer with exact (unbounded) Python-int semantics, represented as a z3 bit-vector
            that is widened by every operation that could overflow (so no wrap-around is ever
            introduced by the encoding)
    SBytes  immutable byte string: concrete length per path, every byte an int or a BV8 term
    SBuf    mutable variant (stands in for bytearray)
    SStr    text, represented by its encoded bytes (utf-8: constrained / checked to be
            well-formed; cp1252 for the decoder's fallback)
    SIp     dotted-quad IPv4 address, represented by its 4 octets
* stubs for the C boundary, injected into module globals / class attributes and removed again
    struct.Struct objects  -> StructStub (pure-Python little-endian pack/unpack with CPython's
                              range and length errors)
    uint8..int32/boolean/string/bytearr/ipaddr.__new__ -> boxes the (symbolic) payload; every
                              method of the box is the REAL function object found in the class
                              __dict__ at call time
    bytearray, bytes, range, int.from_bytes, zlib (tagged identity), socket.inet_aton/ntoa,
    secrets.token_bytes (environment: the key comes from the harness)
* validate(): differential test of every stub against the real thing on the repository's own
  test vectors and on boundary values (run by the preludes of C01/C02).

In concrete replay nothing of this is installed: plain Python values, real struct/zlib/socket.
"""
from __future__ import annotations

import contextlib
import importlib.util
import operator
import os
import socket as _socket
import struct as _struct
import types
import zlib as _zlib

import z3

from engine import symex
from engine.symex import SBool, SInt, SReal, HarnessError

# ------------------------------------------------------------------------------
# byte terms: python int 0..255 or z3 BitVecRef of width 8
# ------------------------------------------------------------------------------


def _norm(e):
    """simplify a BV term; a constant becomes a python int"""
    if isinstance(e, int):
        return e
    e = z3.simplify(e)
    if z3.is_bv_value(e):
        return e.as_long()
    return e


def _bv8(t):
    return z3.BitVecVal(t, 8) if isinstance(t, int) else t


def _concretize(e, limit=64):
    """sound concretisation of a z3 Int/BV term (forks over every feasible value).  When the solver gives up on the
    enumeration (hard bit-vector conditions, e.g. a length read from wrongly de-obfuscated bytes) the path is cut and
    counted as inconclusive - that is not an engine error and never a success."""
    c = symex.ctx()
    try:
        return c.concretize(e, limit=limit)
    except HarnessError as ex:
        if 'solver unknown' not in str(ex):
            raise
        c.stats.inconclusive += 1
        if c.explorer is not None:
            c.explorer.inconclusive.append(('concretize_symbolic_length', None))
        raise symex.PathAbort('solver unknown while concretising a symbolic length; path counted as inconclusive')


_FACTS = {'ctx': None, 'ids': {}}


def assume_fact(c, cond):
    """c.assume(cond) and remember the (hash-consed) formula: the real code re-deriving exactly this
    condition on the same path (decode of the bytes a text was built from) needs no solver query"""
    if _FACTS['ctx'] is not c:
        _FACTS['ctx'], _FACTS['ids'] = c, {}
    for f in (cond if isinstance(cond, (list, tuple)) else [cond]):
        _FACTS['ids'][f.get_id()] = f      # keeping the AST alive keeps its id
    cs = list(cond) if isinstance(cond, (list, tuple)) else [cond]
    c.assume(z3.And(*cs) if len(cs) > 1 else cs[0])


def _sym_truth(cond) -> bool:
    """python truth of a z3 Bool / python bool (forks when both sides are feasible)"""
    if isinstance(cond, bool):
        return cond
    if _FACTS['ctx'] is not None and _FACTS['ctx'] is symex._CTX and cond.get_id() in _FACTS['ids']:
        return True
    return bool(SBool(cond))


# generic connectives that stay in python when everything is concrete ------------

def _and(*xs):
    out = []
    for x in xs:
        if x is False:
            return False
        if x is not True:
            out.append(x)
    if not out:
        return True
    return out[0] if len(out) == 1 else z3.And(*out)


def _or(*xs):
    out = []
    for x in xs:
        if x is True:
            return True
        if x is not False:
            out.append(x)
    if not out:
        return False
    return out[0] if len(out) == 1 else z3.Or(*out)


def _not(x):
    if isinstance(x, bool):
        return not x
    return z3.Not(x)


def _rng(t, lo, hi):
    if isinstance(t, int):
        return lo <= t <= hi
    return z3.And(z3.UGE(t, lo), z3.ULE(t, hi))


def _teq(a, b):
    """equality of two byte terms"""
    if isinstance(a, int) and isinstance(b, int):
        return a == b
    if a is b:
        return True
    return _bv8(a) == _bv8(b)


# ------------------------------------------------------------------------------
# SWord
# ------------------------------------------------------------------------------


class SWord:
    """symbolic integer with exact python-int semantics over a bit-vector term.
    value = unsigned (signed=False) or two's complement (signed=True) reading of `e`."""
    __slots__ = ('e', 'signed')

    def __init__(self, e, signed=False):
        self.e = e
        self.signed = signed

    # -- representation helpers ---------------------------------------------------
    @property
    def bits(self):
        return self.e.size()

    def _need(self):
        """width needed for a signed representation"""
        return self.bits if self.signed else self.bits + 1

    def _sx(self, width):
        d = width - self.bits
        if d < 0:
            raise HarnessError('SWord narrowing')
        if d == 0:
            return self.e
        return z3.SignExt(d, self.e) if self.signed else z3.ZeroExt(d, self.e)

    @staticmethod
    def coerce(o):
        if isinstance(o, SWord):
            return o
        if isinstance(o, bool):
            o = int(o)
        if isinstance(o, int):
            if o >= 0:
                return SWord(z3.BitVecVal(o, max(1, o.bit_length())), False)
            return SWord(z3.BitVecVal(o, o.bit_length() + 1), True)
        if isinstance(o, SBool):
            return SWord(z3.If(o.e, z3.BitVecVal(1, 1), z3.BitVecVal(0, 1)), False)
        return None

    def as_sint(self) -> SInt:
        return SInt(z3.BV2Int(self.e, self.signed))

    def lo_hi(self):
        if self.signed:
            return -(1 << (self.bits - 1)), (1 << (self.bits - 1)) - 1
        return 0, (1 << self.bits) - 1

    @staticmethod
    def make(e, signed):
        """simplified result: python int when constant"""
        e = z3.simplify(e)
        if z3.is_bv_value(e):
            return e.as_signed_long() if signed else e.as_long()
        return SWord(e, signed)

    # -- arithmetic -----------------------------------------------------------------
    def _arith(self, o, fn, reflected=False):
        if isinstance(o, (SInt, SReal)):
            a = self.as_sint()
            return fn(o, a) if reflected else fn(a, o)
        b = SWord.coerce(o)
        if b is None:
            return NotImplemented
        w = max(self._need(), b._need()) + 1
        x, y = self._sx(w), b._sx(w)
        if reflected:
            x, y = y, x
        return SWord.make(fn(x, y), True)

    def __add__(self, o):
        return self._arith(o, operator.add)

    def __radd__(self, o):
        return self._arith(o, operator.add, True)

    def __sub__(self, o):
        return self._arith(o, operator.sub)

    def __rsub__(self, o):
        return self._arith(o, operator.sub, True)

    def __mul__(self, o):
        if isinstance(o, (SInt, SReal)):
            return self.as_sint() * o
        b = SWord.coerce(o)
        if b is None:
            return NotImplemented
        w = self._need() + b._need()
        return SWord.make(self._sx(w) * b._sx(w), True)

    __rmul__ = __mul__

    def __neg__(self):
        return 0 - self

    def __pos__(self):
        return self

    def _divmod(self, o, want_mod, reflected=False):
        # python floor division / modulo through the Int theory (rare: not used by the codec itself)
        a = self.as_sint()
        if isinstance(o, SWord):
            o = o.as_sint()
        if reflected:
            return (o % a) if want_mod else (o // a)
        return (a % o) if want_mod else (a // o)

    def __floordiv__(self, o):
        return self._divmod(o, False)

    def __rfloordiv__(self, o):
        return self._divmod(o, False, True)

    def __mod__(self, o):
        return self._divmod(o, True)

    def __rmod__(self, o):
        return self._divmod(o, True, True)

    # -- comparisons ----------------------------------------------------------------
    def _cmp(self, o, fn):
        if isinstance(o, (SInt, SReal)):
            return fn(self.as_sint(), o)
        b = SWord.coerce(o)
        if b is None:
            return NotImplemented
        w = max(self._need(), b._need())
        return SBool(fn(self._sx(w), b._sx(w)))

    def __lt__(self, o):
        return self._cmp(o, lambda a, b: a < b)

    def __le__(self, o):
        return self._cmp(o, lambda a, b: a <= b)

    def __gt__(self, o):
        return self._cmp(o, lambda a, b: a > b)

    def __ge__(self, o):
        return self._cmp(o, lambda a, b: a >= b)

    def __eq__(self, o):
        r = self._cmp(o, lambda a, b: a == b)
        return False if r is NotImplemented else r

    def __ne__(self, o):
        r = self._cmp(o, lambda a, b: a != b)
        return True if r is NotImplemented else r

    # -- bit operations -------------------------------------------------------------
    def _bitop(self, o, fn):
        b = SWord.coerce(o)
        if b is None:
            return NotImplemented
        if self.signed or b.signed:
            w = max(self._need(), b._need())
            return SWord.make(fn(self._sx(w), b._sx(w)), True)
        w = max(self.bits, b.bits)
        return SWord.make(fn(self._sx(w), b._sx(w)), False)

    def __and__(self, o):
        if isinstance(o, int) and not isinstance(o, bool) and o >= 0:
            # x & m with a constant m >= 0 only depends on the low bit_length(m) bits and is < 2**bit_length(m)
            k = o.bit_length()
            if k == 0:
                return 0
            return SWord.make(self.resized(k) & z3.BitVecVal(o, k), False)
        return self._bitop(o, operator.and_)

    __rand__ = __and__

    def __or__(self, o):
        return self._bitop(o, operator.or_)

    __ror__ = __or__

    def __xor__(self, o):
        return self._bitop(o, operator.xor)

    __rxor__ = __xor__

    def __invert__(self):
        return (0 - self) - 1

    def __lshift__(self, k):
        k = operator.index(k)
        if k < 0:
            raise ValueError('negative shift count')
        if k > 4096:
            raise HarnessError('SWord shift too wide')
        return SWord.make(self._sx(self.bits + k) << k, self.signed)

    def __rshift__(self, k):
        k = operator.index(k)
        if k < 0:
            raise ValueError('negative shift count')
        if k >= self.bits:
            k = self.bits - 1 if self.signed else self.bits
            if not self.signed:
                return 0
        return SWord.make((self.e >> k) if self.signed else z3.LShR(self.e, k), self.signed)

    # -- leaving the symbolic world ---------------------------------------------------
    def __bool__(self):
        return bool(SBool(self.e != 0))

    def concretize(self, limit=64):
        v = _concretize(self.e, limit)
        if self.signed and v >= (1 << (self.bits - 1)):
            v -= (1 << self.bits)
        return v

    def __index__(self):
        return self.concretize()

    __int__ = __index__

    def __hash__(self):
        return hash(self.concretize())

    def fits(self, lo, hi):
        """python bool / SBool: lo <= self <= hi"""
        mylo, myhi = self.lo_hi()
        if lo <= mylo and myhi <= hi:
            return True
        if not self.signed and lo <= 0 and (hi + 1) & hi == 0 and hi.bit_length() < self.bits:
            top = z3.simplify(z3.Extract(self.bits - 1, hi.bit_length(), self.e))
            if z3.is_bv_value(top) and top.as_long() == 0:
                return True
        return symex.And(self >= lo, self <= hi)

    def resized(self, nbits):
        """the low nbits of the infinite two's complement representation"""
        if nbits <= self.bits:
            return z3.Extract(nbits - 1, 0, self.e)
        return self._sx(nbits)

    def to_bytes(self, length=1, byteorder='big', *, signed=False):
        length = operator.index(length)
        if signed:
            lo, hi = -(1 << (8 * length - 1)) if length else 0, ((1 << (8 * length - 1)) - 1) if length else 0
        else:
            lo, hi = 0, (1 << (8 * length)) - 1
        ok = self.fits(lo, hi)
        if ok is not True and not bool(ok):
            if not signed and bool(self < 0):
                raise OverflowError("can't convert negative int to unsigned")
            raise OverflowError('int too big to convert')
        e = self.resized(8 * length) if length else None
        terms = [_norm(z3.Extract(8 * i + 7, 8 * i, e)) for i in range(length)]
        if byteorder == 'big':
            terms.reverse()
        elif byteorder != 'little':
            raise ValueError("byteorder must be either 'little' or 'big'")
        return SBytes(terms)

    def bit_length(self):
        raise HarnessError('SWord.bit_length')

    def __repr__(self):
        return '<SWord>'

    __str__ = __repr__

    def __format__(self, spec):
        return '<SWord>'


def word_from_terms(terms, signed=False, byteorder='little'):
    """int.from_bytes over byte terms"""
    terms = list(terms)
    if byteorder == 'big':
        terms.reverse()
    if not terms:
        return 0
    if all(isinstance(t, int) for t in terms):
        return int.from_bytes(bytes(terms), 'little', signed=signed)
    e = z3.Concat(*[_bv8(t) for t in reversed(terms)]) if len(terms) > 1 else _bv8(terms[0])
    return SWord.make(e, signed)


def int_terms(v, nbytes, signed, what='argument'):
    """little-endian byte terms of integer v with struct's range check (struct.error)"""
    if isinstance(v, Box):
        v = v.v
    lo, hi = (-(1 << (8 * nbytes - 1)), (1 << (8 * nbytes - 1)) - 1) if signed else (0, (1 << (8 * nbytes)) - 1)
    if isinstance(v, SBool):
        v = SWord.coerce(v)
    if isinstance(v, int):
        if not lo <= v <= hi:
            raise _struct.error(f'{what} out of range')
        return list(v.to_bytes(nbytes, 'little', signed=signed))
    if isinstance(v, SInt):
        if not bool(symex.And(v >= lo, v <= hi)):
            raise _struct.error(f'{what} out of range')
        e = z3.Int2BV(v.e, 8 * nbytes)
        return [_norm(z3.Extract(8 * i + 7, 8 * i, e)) for i in range(nbytes)]
    if isinstance(v, SWord):
        ok = v.fits(lo, hi)
        if ok is not True and not bool(ok):
            raise _struct.error(f'{what} out of range')
        e = v.resized(8 * nbytes)
        return [_norm(z3.Extract(8 * i + 7, 8 * i, e)) for i in range(nbytes)]
    raise _struct.error('required argument is not an integer')


# ------------------------------------------------------------------------------
# SBytes / SBuf
# ------------------------------------------------------------------------------


def _elem(t):
    return t if isinstance(t, int) else SWord(t, False)


def _term(x):
    """anything that may be stored as one byte -> byte term (ValueError like bytearray)"""
    if isinstance(x, bool):
        return int(x)
    if isinstance(x, int):
        if not 0 <= x <= 255:
            raise ValueError('byte must be in range(0, 256)')
        return x
    if isinstance(x, SBool):
        x = SWord.coerce(x)
    if isinstance(x, SWord):
        ok = x.fits(0, 255)
        if ok is not True and not bool(ok):
            raise ValueError('byte must be in range(0, 256)')
        return _norm(x.resized(8))
    if isinstance(x, SInt):
        if not bool(symex.And(x >= 0, x <= 255)):
            raise ValueError('byte must be in range(0, 256)')
        return _norm(z3.Int2BV(x.e, 8))
    if isinstance(x, z3.BitVecRef) and x.size() == 8:
        return _norm(x)
    raise TypeError(f'an integer is required (got {type(x).__name__})')


def terms_of(x):
    """byte terms of any bytes-like / iterable of byte values"""
    if isinstance(x, SBytes):
        return list(x.b)
    if isinstance(x, Box):
        return terms_of(x.v)
    if isinstance(x, (bytes, bytearray, memoryview)):
        return list(bytes(x))
    if isinstance(x, (str, SStr, SIp)):
        raise TypeError('string argument without an encoding')
    if isinstance(x, int):
        return [0] * x
    return [_term(t) for t in x]


def _slice_bound(x, n, default):
    """python slice-bound semantics; a symbolic bound forks over 0..n and '> n'"""
    if x is None:
        return default
    if isinstance(x, int):
        if x < 0:
            x += n
            return max(x, 0)
        return min(x, n)
    if isinstance(x, Box):
        x = x.v
    if isinstance(x, (SWord, SInt)):
        if bool(x < 0):
            x = x + n
            if bool(x < 0):
                return 0
        if bool(x > n):
            return n
        if isinstance(x, SWord):
            return x.concretize(limit=n + 2)
        return _concretize(x.e, limit=n + 2)
    return operator.index(x)


class SBytes:
    __slots__ = ('b',)

    def __init__(self, terms=()):
        self.b = list(terms)

    # -- inspection -------------------------------------------------------------------
    def __len__(self):
        return len(self.b)

    def is_concrete(self):
        return all(isinstance(t, int) for t in self.b)

    def concrete(self):
        return bytes(self.b) if self.is_concrete() else None

    def __bytes__(self):
        if not self.is_concrete():
            raise HarnessError('symbolic bytes reached a C boundary (bytes())')
        return bytes(self.b)

    def __getitem__(self, i):
        if isinstance(i, slice):
            if i.step not in (None, 1):
                if not all(x is None or isinstance(x, int) for x in (i.start, i.stop, i.step)):
                    raise HarnessError('SBytes: stepped slice with symbolic bounds')
                return type(self)(self.b[i])
            n = len(self.b)
            lo = _slice_bound(i.start, n, 0)
            hi = _slice_bound(i.stop, n, n)
            return type(self)(self.b[lo:hi])
        i = operator.index(i)
        return _elem(self.b[i])

    def __iter__(self):
        for t in list(self.b):
            yield _elem(t)

    def __reversed__(self):
        for t in reversed(list(self.b)):
            yield _elem(t)

    # -- comparison ---------------------------------------------------------------------
    def eq_formula(self, o):
        """python bool or z3 Bool"""
        if isinstance(o, Box):
            o = o.v
        if isinstance(o, (bytes, bytearray)):
            ob = list(o)
        elif isinstance(o, SBytes):
            ob = o.b
        else:
            return False
        if len(ob) != len(self.b):
            return False
        return _and(*[_teq(x, y) for x, y in zip(self.b, ob)])

    def __eq__(self, o):
        r = self.eq_formula(o)
        return r if isinstance(r, bool) else SBool(r)

    def __ne__(self, o):
        r = self.eq_formula(o)
        return (not r) if isinstance(r, bool) else SBool(z3.Not(r))

    def __hash__(self):
        if self.is_concrete():
            return hash(bytes(self.b))
        raise HarnessError('hash of symbolic bytes')

    def __bool__(self):
        return bool(self.b)

    # -- construction ---------------------------------------------------------------------
    def __add__(self, o):
        if isinstance(o, (SBytes, bytes, bytearray, Box)):
            return type(self)(self.b + terms_of(o))
        return NotImplemented

    def __radd__(self, o):
        if isinstance(o, (bytes, bytearray)):
            return SBytes(list(o) + self.b)
        return NotImplemented

    def __mul__(self, k):
        return type(self)(self.b * operator.index(k))

    def startswith(self, p):
        p = SBytes(terms_of(p))
        if len(p) > len(self):
            return False
        return bool(SBytes(self.b[:len(p)]) == p)

    def hex(self):
        if self.is_concrete():
            return bytes(self.b).hex()
        return '<symbolic>'

    # -- text ---------------------------------------------------------------------------------
    def decode(self, encoding='utf-8', errors='strict'):
        if self.is_concrete():
            return bytes(self.b).decode(encoding, errors)
        # symbolic bytes: engine/codec_text.py (utf-8, utf-8-sig, ascii, single-byte charmaps; errors strict/ignore/replace;
        # any other codec raises a HarnessError naming it, an unknown name raises LookupError like CPython)
        from engine import codec_text
        return codec_text.decode(self, encoding, errors)

    def __repr__(self):
        c = self.concrete()
        return f'<{type(self).__name__} {c!r}>' if c is not None else f'<{type(self).__name__} len={len(self.b)}>'

    __str__ = __repr__

    def __format__(self, spec):
        return repr(self)


class SBuf(SBytes):
    """stands in for bytearray"""
    __slots__ = ()
    __hash__ = None

    def extend(self, it):
        self.b.extend(terms_of(it))

    def append(self, x):
        self.b.append(_term(x))

    def __iadd__(self, o):
        self.b.extend(terms_of(o))
        return self

    def __setitem__(self, i, v):
        if isinstance(i, slice):
            n = len(self.b)
            lo, hi = _slice_bound(i.start, n, 0), _slice_bound(i.stop, n, n)
            self.b[lo:hi] = terms_of(v)
            return
        self.b[operator.index(i)] = _term(v)

    def __delitem__(self, i):
        if isinstance(i, slice):
            n = len(self.b)
            del self.b[_slice_bound(i.start, n, 0):_slice_bound(i.stop, n, n)]
        else:
            del self.b[operator.index(i)]

    def clear(self):
        self.b.clear()

    def copy(self):
        return SBuf(self.b)


# ------------------------------------------------------------------------------
# text
# ------------------------------------------------------------------------------

_CP1252_UNDEFINED = (0x81, 0x8D, 0x8F, 0x90, 0x9D)


def _utf8_wellformed_generic(terms):
    """exact strict-UTF-8 well-formedness (CPython's decoder: shortest form, no surrogates,
    max U+10FFFF) of a byte-term sequence, as python bool / z3 Bool.  ok[i] == terms[i:] is
    well-formed; UTF-8 is prefix-free so the decomposition is unique."""
    n = len(terms)
    ok = [False] * (n + 1)
    ok[n] = True
    cont = [_rng(t, 0x80, 0xBF) for t in terms]
    for i in range(n - 1, -1, -1):
        b0 = terms[i]
        alts = [_and(_rng(b0, 0x00, 0x7F), ok[i + 1])]
        if i + 2 <= n:
            alts.append(_and(_rng(b0, 0xC2, 0xDF), cont[i + 1], ok[i + 2]))
        if i + 3 <= n:
            b1 = terms[i + 1]
            second = _or(_and(_rng(b0, 0xE0, 0xE0), _rng(b1, 0xA0, 0xBF)),
                         _and(_rng(b0, 0xE1, 0xEC), cont[i + 1]),
                         _and(_rng(b0, 0xED, 0xED), _rng(b1, 0x80, 0x9F)),
                         _and(_rng(b0, 0xEE, 0xEF), cont[i + 1]))
            alts.append(_and(second, cont[i + 2], ok[i + 3]))
        if i + 4 <= n:
            b1 = terms[i + 1]
            second = _or(_and(_rng(b0, 0xF0, 0xF0), _rng(b1, 0x90, 0xBF)),
                         _and(_rng(b0, 0xF1, 0xF3), cont[i + 1]),
                         _and(_rng(b0, 0xF4, 0xF4), _rng(b1, 0x80, 0x8F)))
            alts.append(_and(second, cont[i + 2], cont[i + 3], ok[i + 4]))
        ok[i] = _or(*alts)
    return ok[0]


_WF_TEMPLATES: dict = {}


def utf8_wellformed(terms):
    """see _utf8_wellformed_generic.  For symbolic input the formula is built once per length over
    placeholder bytes and instantiated by substitution (the z3 python API is the bottleneck otherwise);
    identical byte terms therefore give the identical (hash-consed) formula."""
    terms = list(terms)
    if all(isinstance(t, int) for t in terms):
        return _utf8_wellformed_generic(terms)
    n = len(terms)
    tpl = _WF_TEMPLATES.get(n)
    if tpl is None:
        ps = [z3.BitVec(f'_wf_{n}_{i}', 8) for i in range(n)]
        tpl = _WF_TEMPLATES[n] = (ps, _utf8_wellformed_generic(ps))
    ps, f = tpl
    return z3.substitute(f, *[(p, _bv8(t)) for p, t in zip(ps, terms)])


def cp1252_defined(terms):
    return _and(*[_not(_or(*[_teq(t, u) for u in _CP1252_UNDEFINED])) for t in terms])


_CP1252_UTF8 = {v: bytes([v]).decode('cp1252').encode('utf-8') for v in range(0x80, 0x100) if v not in _CP1252_UNDEFINED}


def _utf8_eq_cp1252(a, b):
    """exact text equality of well-formed utf-8 bytes `a` and cp1252 bytes `b` (all defined), as python bool / z3 Bool.
    b is len(b) characters; a is len(a) minus its continuation bytes."""
    n, m = len(a), len(b)
    if m > n:
        return False
    if n == m:
        # equal texts have equal character counts, so a has no continuation byte, so both are ASCII and bytewise equal
        return _and(*[_and(_rng(y, 0, 0x7F), _teq(x, y)) for x, y in zip(a, b)])
    if n * m > 900:
        raise HarnessError('comparison of long symbolic texts with different encodings')
    match = {}
    for j in range(m, -1, -1):
        for i in range(n, -1, -1):
            if j == m or i == n:
                match[i, j] = (i == n and j == m)
                continue
            alts = [_and(_rng(b[j], 0, 0x7F), _teq(a[i], b[j]), match.get((i + 1, j + 1), False))]
            for v, enc in _CP1252_UTF8.items():
                k = len(enc)
                if i + k <= n and match.get((i + k, j + 1), False) is not False:
                    alts.append(_and(_teq(b[j], v), *[_teq(a[i + d], enc[d]) for d in range(k)], match[i + k, j + 1]))
            match[i, j] = _or(*alts)
    return match[0, 0]


class SStr:
    """text of concrete encoded length, represented by the bytes it was decoded from: stands for
    raw.decode(enc, errors).  errors == 'strict' (the normal case) means raw is valid for enc on this path;
    other values only arise from a lossy decode of invalid symbolic input (see engine/codec_text.py)."""
    __slots__ = ('raw', 'enc', 'errors')

    def __init__(self, raw: SBytes, enc='utf-8', errors='strict'):
        self.raw = raw
        self.enc = enc
        self.errors = errors

    def text(self):
        """the python str when the bytes are concrete, else None"""
        c = self.raw.concrete()
        return None if c is None else c.decode(self.enc, self.errors)

    def encode(self, encoding='utf-8', errors='strict'):
        if encoding == self.enc == 'utf-8' and self.errors == 'strict':
            return SBytes(self.raw.b)
        from engine import codec_text
        return codec_text.encode(self, encoding, errors)

    def eq_formula(self, o):
        if isinstance(o, Box):
            o = o.v
        if isinstance(o, str):
            c = self.text()
            if c is not None:
                return c == o
            o = SStr(SBytes(list(o.encode('utf-8', 'surrogatepass'))), 'utf-8')
        if isinstance(o, SStr):
            if o.enc == self.enc and self.errors == o.errors == 'strict':
                return self.raw.eq_formula(o.raw)
            from engine import codec_text
            return codec_text.text_eq(self, o)      # texts carried in different codecs / lossy decodes
        return False

    def __eq__(self, o):
        r = self.eq_formula(o)
        return r if isinstance(r, bool) else SBool(r)

    def __ne__(self, o):
        r = self.eq_formula(o)
        return (not r) if isinstance(r, bool) else SBool(z3.Not(r))

    def __bool__(self):
        if self.errors == 'ignore' and not self.raw.is_concrete():
            raise HarnessError("truth of a text decoded with errors='ignore' from invalid symbolic input is not modelled")
        c = self.text()
        return len(c) > 0 if c is not None else len(self.raw) > 0

    def __len__(self):
        c = self.text()
        if c is not None:
            return len(c)
        if self.errors != 'strict':
            raise HarnessError(f'len() of a text decoded with errors={self.errors!r} from invalid symbolic input is not modelled')
        if self.enc != 'utf-8':
            return len(self.raw)
        n = z3.Sum([z3.If(_rng(t, 0x80, 0xBF), 0, 1) if not isinstance(t, int) else (0 if 0x80 <= t <= 0xBF else 1)
                    for t in self.raw.b])
        return _concretize(z3.simplify(n), limit=len(self.raw) + 2)

    def __hash__(self):
        c = self.text()
        if c is not None:
            return hash(c)
        raise HarnessError('hash of symbolic text')

    def __repr__(self):
        return '<SStr>'

    __str__ = __repr__

    def __format__(self, spec):
        return '<SStr>'


class SIp:
    """IPv4 address in canonical dotted-quad form, represented by its octets a.b.c.d"""
    __slots__ = ('octets',)

    def __init__(self, octets: SBytes):
        if len(octets) != 4:
            raise HarnessError('SIp needs 4 octets')
        self.octets = octets

    def eq_formula(self, o):
        if isinstance(o, Box):
            o = o.v
        if isinstance(o, SIp):
            return self.octets.eq_formula(o.octets)
        if isinstance(o, str):
            parts = o.split('.')
            if len(parts) != 4 or not all(p.isdigit() and str(int(p)) == p and int(p) < 256 for p in parts):
                return False
            return self.octets.eq_formula(bytes(int(p) for p in parts))
        return False

    def __eq__(self, o):
        r = self.eq_formula(o)
        return r if isinstance(r, bool) else SBool(r)

    def __ne__(self, o):
        r = self.eq_formula(o)
        return (not r) if isinstance(r, bool) else SBool(z3.Not(r))

    def __hash__(self):
        raise HarnessError('hash of symbolic ip')

    def __repr__(self):
        return '<SIp>'

    __str__ = __repr__

    def __format__(self, spec):
        return '<SIp>'


PROXIES = (SWord, SInt, SBool, SBytes, SStr, SIp)

# ------------------------------------------------------------------------------
# boxes: uint32(v) / string(v) / ... with a symbolic payload
# ------------------------------------------------------------------------------


class Box:
    """instance stand-in for one of aioslsk's primitive classes (int/str/bytes subclasses)
    carrying a symbolic payload.  Attribute lookup walks the MRO of the real class up to (not
    including) the builtin base, so `box.serialize_into(buf)` executes the real function object
    that is in the class __dict__ right now."""
    __slots__ = ('cls', 'v')

    def __init__(self, cls, v):
        object.__setattr__(self, 'cls', cls)
        object.__setattr__(self, 'v', v)

    def __getattr__(self, name):
        cls = object.__getattribute__(self, 'cls')
        for k in cls.__mro__:
            if k in (int, str, bytes, object):
                break
            if name in k.__dict__:
                a = k.__dict__[name]
                if isinstance(a, types.FunctionType):
                    return types.MethodType(a, self)
                if isinstance(a, (classmethod, staticmethod)):
                    return a.__get__(None, cls)
                if hasattr(a, '__get__') and not isinstance(a, type):
                    return a.__get__(self, cls)
                return a
        raise AttributeError(f'{cls.__name__} box has no attribute {name!r}')

    # what the real methods need from `self` ---------------------------------------------
    def encode(self, encoding='utf-8', errors='strict'):
        v = self.v
        if isinstance(v, (SStr, str)):
            r = v.encode(encoding, errors)
            return r if isinstance(r, SBytes) else SBytes(list(r))
        raise AttributeError('encode')

    def __len__(self):
        return len(self.v)

    def __iter__(self):
        return iter(self.v)

    def __bool__(self):
        return bool(self.v)

    def __eq__(self, o):
        return self.v == (o.v if isinstance(o, Box) else o)

    def __ne__(self, o):
        return self.v != (o.v if isinstance(o, Box) else o)

    def __hash__(self):
        return hash(self.v)

    def __index__(self):
        return operator.index(self.v)

    def __repr__(self):
        return f'<Box {object.__getattribute__(self, "cls").__name__}>'


def _box_delegate(name):
    def op(self, *a):
        a = tuple(x.v if isinstance(x, Box) else x for x in a)
        r = getattr(self.v, name, None)
        if r is None:
            return NotImplemented
        return r(*a)
    op.__name__ = name
    return op


# the payload answers every arithmetic / comparison / container operator the real methods may apply to `self`
for _n in ('add radd sub rsub mul rmul floordiv rfloordiv mod rmod neg pos invert and rand or ror xor rxor lshift rlshift '
           'rshift rrshift lt le gt ge int getitem contains reversed').split():
    setattr(Box, f'__{_n}__', _box_delegate(f'__{_n}__'))


def _boxed_new(base):
    def __new__(cls, *a, **kw):
        if a and isinstance(a[0], Box):
            a = (a[0].v,) + a[1:]
        if a and isinstance(a[0], PROXIES):
            return Box(cls, a[0])
        return base.__new__(cls, *a, **kw)
    return __new__


# ------------------------------------------------------------------------------
# struct
# ------------------------------------------------------------------------------

_INT_CODES = {'B': (1, False), 'H': (2, False), 'I': (4, False), 'L': (4, False), 'Q': (8, False),
              'b': (1, True), 'h': (2, True), 'i': (4, True), 'l': (4, True), 'q': (8, True)}


class StructStub:
    """pure-python little-endian struct.Struct ('<' formats of B H I L Q b h i l q ? Ns x)"""

    def __init__(self, fmt):
        if isinstance(fmt, bytes):
            fmt = fmt.decode()
        self.format = fmt
        if not fmt or fmt[0] != '<':
            raise HarnessError(f'StructStub: only little-endian standard formats are modelled, got {fmt!r}')
        items, num = [], ''
        for ch in fmt[1:]:
            if ch.isdigit():
                num += ch
                continue
            if ch.isspace():
                continue
            cnt = int(num) if num else 1
            num = ''
            if ch == 's':
                items.append(('s', cnt))
            elif ch == 'x':
                items.extend([('x', 1)] * cnt)
            elif ch in _INT_CODES or ch == '?':
                items.extend([(ch, 1)] * cnt)
            else:
                raise HarnessError(f'StructStub: format code {ch!r} not modelled')
        self.items = items
        self.size = sum((n if c in 's' else 1 if c in '?x' else _INT_CODES[c][0]) for c, n in items)
        self.nargs = sum(1 for c, _ in items if c != 'x')
        assert self.size == _struct.calcsize(fmt)

    def pack(self, *vals):
        if len(vals) != self.nargs:
            raise _struct.error(f'pack expected {self.nargs} items for packing (got {len(vals)})')
        out, vi = [], 0
        for code, n in self.items:
            if code == 'x':
                out.append(0)
                continue
            v = vals[vi]
            vi += 1
            if code == '?':
                if isinstance(v, Box):
                    v = v.v
                if isinstance(v, SBool):
                    out.append(_norm(z3.If(v.e, z3.BitVecVal(1, 8), z3.BitVecVal(0, 8))))
                elif isinstance(v, (SWord, SInt)):
                    out.append(_norm(z3.If((v != 0).e, z3.BitVecVal(1, 8), z3.BitVecVal(0, 8))))
                else:
                    out.append(1 if v else 0)
            elif code == 's':
                if isinstance(v, Box):
                    v = v.v
                if not isinstance(v, (bytes, bytearray, SBytes)):
                    raise _struct.error("argument for 's' must be a bytes object")
                t = terms_of(v)[:n]
                out.extend(t + [0] * (n - len(t)))
            else:
                nb, signed = _INT_CODES[code]
                out.extend(int_terms(v, nb, signed, what=f"'{code}' format requires {-(1 << (8 * nb - 1)) if signed else 0} <= number <= "
                                                         f"{(1 << (8 * nb - 1)) - 1 if signed else (1 << (8 * nb)) - 1}: argument"))
        return SBytes(out)

    def _unpack_terms(self, terms):
        out, p = [], 0
        for code, n in self.items:
            if code == 'x':
                p += 1
            elif code == '?':
                t = terms[p]
                p += 1
                out.append(t != 0 if isinstance(t, int) else SBool(t != 0))
            elif code == 's':
                out.append(SBytes(terms[p:p + n]))
                p += n
            else:
                nb, signed = _INT_CODES[code]
                out.append(word_from_terms(terms[p:p + nb], signed))
                p += nb
        return tuple(out)

    def unpack(self, data):
        if isinstance(data, (bytes, bytearray, memoryview)) or not isinstance(data, SBytes):
            return _struct.unpack(self.format, data)
        if len(data) != self.size:
            raise _struct.error(f'unpack requires a buffer of {self.size} bytes')
        return self._unpack_terms(data.b)

    def unpack_from(self, buffer, offset=0):
        if not isinstance(buffer, SBytes):
            if isinstance(offset, (SWord, SInt, Box)):
                offset = operator.index(offset)
            return _struct.unpack_from(self.format, buffer, offset)
        n = len(buffer)
        off = offset
        if isinstance(off, Box):
            off = off.v
        if isinstance(off, (SWord, SInt)):
            # an offset inside the buffer is enumerated, anything else is one class (it raises)
            if bool(symex.Or(off < -n, off > n)):
                raise _struct.error(f'offset out of range ({n}-byte buffer)')
            off = off.concretize(limit=2 * n + 3) if isinstance(off, SWord) else _concretize(off.e, limit=2 * n + 3)
        if off < 0:
            if off + n < 0:
                raise _struct.error(f'offset {off} out of range for {n}-byte buffer')
            off += n
        if n - off < self.size:
            raise _struct.error(f'unpack_from requires a buffer of at least {off + self.size} bytes for unpacking '
                                f'{self.size} bytes at offset {off} (actual buffer size is {n})')
        return self._unpack_terms(buffer.b[off:off + self.size])

    def pack_into(self, buffer, offset, *vals):
        data = self.pack(*vals)
        buffer[offset:offset + self.size] = data

    def iter_unpack(self, data):
        raise HarnessError('StructStub.iter_unpack not modelled')


class _StructModule:
    """stand-in for the `struct` module inside the protocol modules (module-level pack/unpack calls
    and Struct objects created after import go through StructStub as well)"""
    error = _struct.error
    Struct = StructStub
    calcsize = staticmethod(_struct.calcsize)

    @staticmethod
    def pack(fmt, *vals):
        return StructStub(fmt).pack(*vals)

    @staticmethod
    def unpack(fmt, data):
        return StructStub(fmt).unpack(data)

    @staticmethod
    def unpack_from(fmt, buffer, offset=0):
        return StructStub(fmt).unpack_from(buffer, offset)

    @staticmethod
    def pack_into(fmt, buffer, offset, *vals):
        return StructStub(fmt).pack_into(buffer, offset, *vals)


# ------------------------------------------------------------------------------
# module-global stand-ins
# ------------------------------------------------------------------------------


class _Callable:
    """a builtin replacement that still works as a type in isinstance()/annotations"""

    def __init__(self, real, fn, **attrs):
        self._real = real
        self._fn = fn
        for k, v in attrs.items():
            setattr(self, k, v)

    def __call__(self, *a, **kw):
        return self._fn(*a, **kw)

    def __instancecheck__(self, obj):
        return isinstance(obj, self._real) or (self._real in (bytes, bytearray) and isinstance(obj, SBytes))

    def __getattr__(self, name):
        return getattr(self._real, name)

    def __or__(self, o):
        return self._real | o

    def __ror__(self, o):
        return o | self._real


def _sym_bytearray(src=None, *a):
    if src is None:
        return SBuf()
    if a:
        return SBuf(list(bytearray(src, *a)))
    return SBuf(terms_of(src))


def _sym_bytes(src=None, *a):
    if src is None:
        return SBytes()
    if a:
        return SBytes(list(bytes(src, *a)))
    return SBytes(terms_of(src))


sym_bytearray = _Callable(bytearray, _sym_bytearray)
sym_bytes = _Callable(bytes, _sym_bytes)

RANGE_UNWIND = 4096


def sym_range(*a):
    """range() whose stop may be symbolic: the loop forks lazily on `i < stop` at every iteration (an
    array count read from hostile bytes is explored as 0, 1, 2, ... elements until the element
    decoder runs out of data and raises)"""
    a = tuple(x.v if isinstance(x, Box) else x for x in a)
    if not any(isinstance(x, (SWord, SInt)) for x in a):
        return range(*a)
    if len(a) == 1:
        start, stop, step = 0, a[0], 1
    elif len(a) == 2:
        start, stop, step = a[0], a[1], 1
    else:
        start, stop, step = a
    if not isinstance(start, int) or not isinstance(step, int) or step <= 0:
        return range(*[operator.index(x) for x in a])

    def gen():
        i = start
        k = 0
        while bool(stop > i):
            yield i
            i += step
            k += 1
            if k > RANGE_UNWIND:
                raise symex.BoundHit('sym_range unwinding bound')
    return gen()


def _int_from_bytes(data, byteorder='big', *, signed=False):
    if isinstance(data, Box):
        data = data.v
    if isinstance(data, SBytes):
        return word_from_terms(data.b, signed, byteorder)
    return int.from_bytes(data, byteorder, signed=signed)


def _sym_int(x=0, *a):
    if isinstance(x, Box):
        x = x.v
    if isinstance(x, SWord):
        return x
    if isinstance(x, (SInt, SReal, SBool)):
        return symex.sym_int(x)
    return int(x, *a)


sym_int = _Callable(int, _sym_int, from_bytes=_int_from_bytes)

ZTAG = b'\x00ZSTUB'   # what the zlib stand-in prepends (CM=0: never a valid zlib header)


ZCTAG = b'\x00ZCMPR'   # tag of the COMPRESSIBLE model: ZCTAG + an opaque body whose length the harness chooses
_ZC = {'ctx': None, 'map': {}}


def _zc_key(terms):
    return tuple(x if isinstance(x, int) else ('t', x.get_id()) for x in terms)


def _zc_register(plain, clen):
    """compressible model (ZLIB_MODEL['compressible'] = fn(plain_len) -> body length): compress() is an injective
    uninterpreted function whose result has `clen` fresh, unconstrained bytes - the model makes no statement about WHAT zlib
    emits, only about how long it is; decompress of exactly those bytes (they survive an obfuscation round trip as the same
    hash-consed terms) gives the plain bytes back."""
    c = symex.ctx()
    if _ZC['ctx'] is not c:
        _ZC['ctx'], _ZC['map'] = c, {}
    clen = max(1, operator.index(clen))
    k = len(_ZC['map'])
    z = [c.fresh_bv(f'_zc{k}[{i}]', 8) for i in range(clen)]
    _ZC['map'][_zc_key(z)] = (z, list(plain))
    return z


def zc_plain(body_terms):
    """plain byte terms of a compressible-model body (without ZCTAG), or None when it is not one produced on this path"""
    if _ZC['ctx'] is not symex._CTX:
        return None
    hit = _ZC['map'].get(_zc_key([_norm(x) for x in body_terms]))
    return None if hit is None else list(hit[1])


class _ZlibStub:
    """symbolic data: tagged identity, compress(x) = ZTAG + x, decompress of an untagged symbolic
    buffer raises zlib.error.  Fully concrete data goes through the real zlib."""
    error = _zlib.error
    ZLIB_VERSION = _zlib.ZLIB_VERSION

    @staticmethod
    def compress(data, *a, **kw):
        t = terms_of(data)
        if all(isinstance(x, int) for x in t):
            return SBytes(list(_zlib.compress(bytes(t), *a, **kw)))
        if ZLIB_MODEL.get('compressible') is not None:
            return SBytes(list(ZCTAG) + _zc_register(t, ZLIB_MODEL['compressible'](len(t))))
        return SBytes(list(ZTAG) + t)

    @staticmethod
    def decompress(data, *a, **kw):
        t = terms_of(data)
        n = len(ZTAG)
        if len(t) >= n and all(isinstance(x, int) for x in t[:n]) and bytes(t[:n]) == ZTAG:
            return SBytes(t[n:])
        if len(t) >= n and all(isinstance(x, int) for x in t[:n]) and bytes(t[:n]) == ZCTAG:
            plain = zc_plain(t[n:])
            if plain is None:
                raise _zlib.error('Error -3 while decompressing data: invalid stored block (unknown compressed body in the model)')
            return SBytes(plain)
        if all(isinstance(x, int) for x in t):
            return SBytes(list(_zlib.decompress(bytes(t), *a, **kw)))
        if len(t) < n or not _sym_truth(_and(*[_teq(x, y) for x, y in zip(t[:n], ZTAG)])):
            raise _zlib.error('Error -3 while decompressing data: incorrect header check')
        return SBytes(t[n:])

    @staticmethod
    def decompressobj(*a, **kw):
        return _DecompressObjStub(a, kw)

    def __getattr__(self, name):
        return getattr(_zlib, name)


ZTRUNC = b'\x00ZTRNC'  # tag of a TRUNCATED stream in the model (valid prefix of a stream: partial output, never reaches eof)
ZLIB_MODEL = {'truncated_tag': False}   # a harness that can replay such a stream concretely (sync-flushed real stream) enables the tag


class ZlibNoProgress(symex.BoundHit):
    """decompressobj.decompress() keeps being called although it can make no progress any more (no input left, no output
    produced, eof never reached): the caller's loop does not terminate.  A harness that checks termination catches it and
    reports a refutation; elsewhere the path is cut and counted as a bound hit."""


class _DecompressObjStub:
    """zlib.decompressobj() over the tagged-identity model.

    * fully concrete input: the real zlib object does the work (results wrapped as SBytes);
    * symbolic input: the stream is classified when the first bytes arrive -
        ZTAG + payload            complete stream: payload comes out 1:1, eof once it is drained
        b'' / ZTAG[:1]            truncated stream without output (exactly what the real zlib says about these bytes)
        ZTRUNC + payload          truncated stream with partial output (only when ZLIB_MODEL['truncated_tag'] is set)
        anything else             zlib.error
      The model knows no end-of-stream marker: the data of the FIRST call is taken to be the whole compressed body (so there
      is no unused_data for symbolic input); later calls may only pass unconsumed_tail (or nothing).
    * decompress() called again and again without progress raises ZlibNoProgress (see there)."""

    def __init__(self, a=(), kw=None):
        self._args, self._kw = a, kw or {}
        self._mode = None          # None | 'real' | 'complete' | 'truncated'
        self._real = None
        self._pending = []
        self._idle = 0
        self._seen = 0
        self.eof = False
        self.unconsumed_tail = SBytes()
        self.unused_data = SBytes()

    def _progress(self, made):
        if made:
            self._idle = 0
            return
        self._idle += 1
        if self._idle > self._seen + 2:
            raise ZlibNoProgress(f'decompressobj.decompress() called {self._idle} times without progress '
                                 f'(eof={self.eof}, {self._seen} input bytes seen)')

    def _sync_real(self):
        self.eof = self._real.eof
        self.unconsumed_tail = SBytes(list(self._real.unconsumed_tail))
        self.unused_data = SBytes(list(self._real.unused_data))

    def decompress(self, data, max_length=0):
        t = terms_of(data)
        max_length = operator.index(max_length)
        if max_length < 0:
            raise ValueError('max_length must be non-negative')
        concrete = all(isinstance(x, int) for x in t)
        n = len(ZTAG)
        if self._mode is None:
            if len(t) >= n and all(isinstance(x, int) for x in t[:n]) and bytes(t[:n]) == ZTAG:
                self._mode, self._pending = 'complete', t[n:]
            elif len(t) >= n and all(isinstance(x, int) for x in t[:n]) and bytes(t[:n]) == ZCTAG:
                plain = zc_plain(t[n:])
                if plain is None:
                    raise _zlib.error('Error -3 while decompressing data: invalid stored block (unknown compressed body in the model)')
                self._mode, self._pending = 'complete', plain      # max_length is honoured below exactly as for ZTAG
            elif ZLIB_MODEL['truncated_tag'] and len(t) >= n and all(isinstance(x, int) for x in t[:n]) and bytes(t[:n]) == ZTRUNC:
                self._mode, self._pending = 'truncated', t[n:]
            elif concrete:
                self._mode, self._real = 'real', _zlib.decompressobj(*self._args, **self._kw)
            elif len(t) >= n and _sym_truth(_and(*[_teq(x, y) for x, y in zip(t[:n], ZTAG)])):
                self._mode, self._pending = 'complete', t[n:]
            elif len(t) == 1 and _sym_truth(_teq(t[0], ZTAG[0])):
                self._mode = 'truncated'
            elif ZLIB_MODEL['truncated_tag'] and len(t) >= n and _sym_truth(_and(*[_teq(x, y) for x, y in zip(t[:n], ZTRUNC)])):
                self._mode, self._pending = 'truncated', t[n:]
            else:
                raise _zlib.error('Error -3 while decompressing data: incorrect header check')
            self._seen += len(t)
        elif self._mode == 'real':
            if not concrete:
                raise HarnessError('decompressobj stand-in: symbolic data fed to a stream that started with concrete data')
            self._seen += len(t)
        else:
            if t and not (len(t) == len(self._pending) and all(x is y or (isinstance(x, int) and x == y) for x, y in zip(t, self._pending))):
                raise HarnessError('decompressobj stand-in: only unconsumed_tail may be fed after the first call (see docstring)')
        if self._mode == 'real':
            was_eof = self._real.eof
            out = self._real.decompress(bytes(t), max_length)
            self._sync_real()
            # (a call that only swallows fresh input counts as idle too: harmless, the limit grows with the input seen)
            self._progress(bool(out) or self.eof != was_eof)
            return SBytes(list(out))
        k = len(self._pending) if max_length == 0 else min(max_length, len(self._pending))
        out, self._pending = self._pending[:k], self._pending[k:]
        was_eof = self.eof
        if self._mode == 'complete' and not self._pending:
            self.eof = True
        self.unconsumed_tail = SBytes(self._pending)
        self._progress(bool(out) or self.eof != was_eof)
        return SBytes(out)

    def flush(self, length=None):
        if self._mode == 'real':
            out = self._real.flush() if length is None else self._real.flush(length)
            self._sync_real()
            return SBytes(list(out))
        out, self._pending = self._pending, []
        if self._mode == 'complete':
            self.eof = True
        self.unconsumed_tail = SBytes()
        return SBytes(out)

    def copy(self):
        raise HarnessError('decompressobj stand-in: copy() not modelled')


class _SocketStub:
    error = OSError

    @staticmethod
    def inet_aton(s):
        if isinstance(s, Box):
            s = s.v
        if isinstance(s, SIp):
            return SBytes(s.octets.b)
        if isinstance(s, SStr):
            c = s.raw.concrete()
            if c is None:
                raise HarnessError('inet_aton of symbolic text')
            s = c.decode(s.enc)
        return SBytes(list(_socket.inet_aton(s)))

    @staticmethod
    def inet_ntoa(b):
        t = terms_of(b)
        if len(t) != 4:
            raise OSError('packed IP wrong length for inet_ntoa')
        if all(isinstance(x, int) for x in t):
            return _socket.inet_ntoa(bytes(t))
        return SIp(SBytes(t))

    def __getattr__(self, name):
        return getattr(_socket, name)


class KeySource:
    """stand-in for the `secrets` module inside aioslsk.protocol.obfuscation: the obfuscation key
    is an input of the check (fresh BV8 bytes / the model's bytes in replay), not randomness"""

    def __init__(self, fn):
        self.fn = fn

    def token_bytes(self, n=32):
        return self.fn(n)


# ------------------------------------------------------------------------------
# installation
# ------------------------------------------------------------------------------

_MISSING = object()
_installed = [False]


def _targets():
    import aioslsk.protocol.primitives as P
    import aioslsk.protocol.messages as M
    import aioslsk.protocol.obfuscation as O
    return P, M, O


@contextlib.contextmanager
def installed(enable=True, key_source=None):
    """install every stub (symbolic exploration and stub validation); `key_source(n)` also
    replaces secrets.token_bytes in the obfuscation module (kept in concrete replay by passing
    enable=False, key_source=fn)"""
    P, M, O = _targets()
    undo = []

    def setg(mod, name, val):
        d = mod.__dict__
        undo.append((d, name, d.get(name, _MISSING)))
        d[name] = val

    def setc(cls, name, val):
        undo.append((cls, name, cls.__dict__.get(name, _MISSING)))
        setattr(cls, name, val)

    if key_source is not None:
        setg(O, 'secrets', KeySource(key_source))
    if enable:
        if _installed[0]:
            raise HarnessError('codec stubs installed twice')
        _installed[0] = True
        for mod in (P, M):
            for name, obj in list(mod.__dict__.items()):
                if isinstance(obj, _struct.Struct):
                    setg(mod, name, StructStub(obj.format))
                if isinstance(obj, type) and obj.__module__ == mod.__name__:
                    for an, av in list(obj.__dict__.items()):
                        if isinstance(av, _struct.Struct):
                            setc(obj, an, StructStub(av.format))
                    for base in (int, str, bytes):
                        if base in obj.__bases__ and '__new__' not in obj.__dict__:
                            setc(obj, '__new__', _boxed_new(base))
        import aioslsk.network.connection as C
        for mod in (P, M, O, C):
            # (the connection module builds no buffers itself today; the names are shadowed there as well so that a
            # buffer built on the send/receive path keeps symbolic bytes instead of concretising them one by one)
            setg(mod, 'bytearray', sym_bytearray)
            setg(mod, 'bytes', sym_bytes)
            setg(mod, 'range', sym_range)
        for mod in (P, M):
            if 'struct' in mod.__dict__:
                setg(mod, 'struct', _StructModule())
        setg(P, 'zlib', _ZlibStub())
        setg(P, 'socket', _SocketStub())
        setg(O, 'int', sym_int)
    try:
        yield
    finally:
        for tgt, name, old in reversed(undo):
            if isinstance(tgt, dict):
                if old is _MISSING:
                    tgt.pop(name, None)
                else:
                    tgt[name] = old
            else:
                if old is _MISSING:
                    delattr(tgt, name)
                else:
                    setattr(tgt, name, old)
        if enable:
            _installed[0] = False


STUBS = [
    'struct.Struct objects of aioslsk.protocol.primitives (uint8..int32/boolean/ipaddr.STRUCT, _ATTR_STRUCT) -> engine.codec.StructStub '
    '(pure-python little-endian pack/unpack, struct.error on out-of-range values and short buffers); the name `struct` in those modules -> the same',
    'uint8/uint16/uint32/uint64/int32/boolean/string/bytearr/ipaddr(+_PeerInitTicket).__new__ -> box carrying the symbolic payload; '
    'all methods executed on it are the real function objects from the class __dict__',
    'bytearray/bytes in primitives, messages, obfuscation, network.connection globals -> SBuf/SBytes (concrete length, BV8 bytes)',
    'range in the same modules -> lazily forking range for symbolic counts (concrete counts: builtin range)',
    'int in obfuscation globals -> int with from_bytes over BV terms (SWord: exact unbounded-int semantics by widening)',
    'zlib in primitives globals -> tagged identity (compress(x)=TAG+x, decompress(other) raises zlib.error); zlib.decompressobj() -> '
    'streaming stand-in over the same model (complete / truncated (eof never reached, unconsumed_tail empty) / corrupt; concrete data: real zlib object), '
    'which signals ZlibNoProgress when decompress() is called more than len(data)+2 times without progress',
    'socket in primitives globals -> inet_aton/inet_ntoa over 4 symbolic octets (canonical dotted quad)',
    'secrets in obfuscation globals -> key bytes supplied by the harness (symbolic BV8 x4; model bytes in replay)',
]


# ------------------------------------------------------------------------------
# fresh symbolic leaves (symbolic while exploring, plain python values in replay)
# ------------------------------------------------------------------------------


class Gen:
    """creates leaf values and collects their side constraints; call commit() once"""

    def __init__(self, c):
        self.c = c
        self.constraints = []

    def word(self, name, bits, signed=False):
        v = self.c.fresh_bv(name, bits)
        if not self.c.symbolic:
            v &= (1 << bits) - 1
            if signed and v >= 1 << (bits - 1):
                v -= 1 << bits
            return v
        return SWord(v, signed)

    def boolean(self, name):
        return self.c.fresh_bool(name)

    def raw(self, name, n):
        bs = [self.c.fresh_bv(f'{name}[{i}]', 8) for i in range(n)]
        if not self.c.symbolic:
            return bytes(b & 0xff for b in bs)
        return SBytes(bs)

    def text(self, name, nbytes):
        """any well-formed UTF-8 text whose encoding has exactly nbytes bytes"""
        bs = [self.c.fresh_bv(f'{name}[{i}]', 8) for i in range(nbytes)]
        if not self.c.symbolic:
            try:
                return bytes(b & 0xff for b in bs).decode('utf-8')
            except UnicodeDecodeError:
                raise symex.PathAbort('model bytes are not utf-8 (assumption false in replay)')
        wf = utf8_wellformed(bs)
        if wf is not True:
            self.constraints.append(wf)
        return SStr(SBytes(bs), 'utf-8')

    def ip(self, name):
        bs = [self.c.fresh_bv(f'{name}[{i}]', 8) for i in range(4)]
        if not self.c.symbolic:
            return '.'.join(str(b & 0xff) for b in bs)
        return SIp(SBytes(bs))

    def commit(self):
        if self.c.symbolic and self.constraints:
            assume_fact(self.c, self.constraints)
        self.constraints = []


# ------------------------------------------------------------------------------
# structural equality / model evaluation of message objects
# ------------------------------------------------------------------------------


def eq_formula(a, b):
    """structural equality of two protocol values as python bool / z3 Bool (no forking).
    dataclasses compare like their generated __eq__: same class and equal field tuples."""
    import dataclasses
    if isinstance(a, Box):
        a = a.v
    if isinstance(b, Box):
        b = b.v
    if dataclasses.is_dataclass(a) and not isinstance(a, type):
        if a.__class__ is not b.__class__:
            return False
        return _and(*[eq_formula(getattr(a, f.name), getattr(b, f.name)) for f in dataclasses.fields(a) if f.compare])
    if isinstance(a, (list, tuple)):
        if not isinstance(b, (list, tuple)) or len(a) != len(b):
            return False
        return _and(*[eq_formula(x, y) for x, y in zip(a, b)])
    for x, y in ((a, b), (b, a)):
        if isinstance(x, (SBytes, SStr, SIp)):
            return x.eq_formula(y)
    r = (a == b)
    if isinstance(r, SBool):
        e = z3.simplify(r.e)
        return True if z3.is_true(e) else False if z3.is_false(e) else e
    if isinstance(r, bool):
        return r
    if r is NotImplemented:
        return False
    return bool(r)


def evaluate(model, v):
    """concrete python value of a (possibly symbolic) protocol value under a z3 model"""
    import dataclasses

    def ev(e):
        return model.eval(e, model_completion=True)

    if isinstance(v, Box):
        v = v.v
    if isinstance(v, SWord):
        r = ev(v.e)
        return r.as_signed_long() if v.signed else r.as_long()
    if isinstance(v, SInt):
        return ev(v.e).as_long()
    if isinstance(v, SBool):
        return bool(z3.is_true(ev(v.e)))
    if isinstance(v, SBytes):
        return bytes(t if isinstance(t, int) else ev(t).as_long() for t in v.b)
    if isinstance(v, SStr):
        return evaluate(model, v.raw).decode(v.enc, v.errors)
    if isinstance(v, SIp):
        return '.'.join(str(x) for x in evaluate(model, v.octets))
    if isinstance(v, list):
        return [evaluate(model, x) for x in v]
    if dataclasses.is_dataclass(v) and not isinstance(v, type):
        o = object.__new__(type(v))
        for f in dataclasses.fields(v):
            object.__setattr__(o, f.name, evaluate(model, getattr(v, f.name)))
        return o
    return v


# ------------------------------------------------------------------------------
# stub validation (prelude)
# ------------------------------------------------------------------------------

TEST_VECTORS = os.path.join(os.path.dirname(os.environ.get('VERIF_REPO_SRC', '/repo/src').rstrip('/')),
                            'tests', 'unit', 'protocol', 'test_messages.py')
if not os.path.exists(TEST_VECTORS):
    TEST_VECTORS = '/repo/tests/unit/protocol/test_messages.py'


def _load_test_module(path):
    spec = importlib.util.spec_from_file_location('_aioslsk_protocol_test_vectors', path)
    mod = importlib.util.module_from_spec(spec)
    spec.loader.exec_module(mod)
    return mod


def _test_calls(mod):
    """(name, bound method, kwargs) for every test of the repository's vector file"""
    out = []
    for cname, cls in sorted(vars(mod).items()):
        if not (isinstance(cls, type) and cname.startswith('Test')):
            continue
        inst = cls()
        for name in sorted(dir(cls)):
            if not name.startswith('test_'):
                continue
            fn = getattr(inst, name)
            params = [m for m in getattr(fn, 'pytestmark', []) if m.name == 'parametrize']
            if not params:
                out.append((f'{cname}.{name}', fn, {}))
                continue
            argname, values = params[0].args[0], params[0].args[1]
            for i, val in enumerate(values):
                out.append((f'{cname}.{name}[{i}]', fn, {argname: val}))
    return out


def _outcome(fn, kw):
    try:
        fn(**kw)
        return 'pass'
    except symex.EngineSignal:
        raise
    except BaseException as e:  # pytest.skip raises a BaseException subclass
        return f'raise:{type(e).__name__}'


def harvest_vectors(path=TEST_VECTORS):
    """run the repository's protocol test vectors against the real, unstubbed codec and record every
    (message object, bytes) pair that went through MessageDataclass.serialize / deserialize.
    returns (records, outcomes): records = [(kind, obj, data, compressed, testname)]"""
    P, M, O = _targets()
    try:
        mod = _load_test_module(path)
    except symex.EngineSignal:
        raise
    except BaseException as e:  # noqa  (a tree that no longer has a name the vector file imports: left to the harness)
        return [], {'<import of the repository vector file>': f'raise:{type(e).__name__}: {e}'}
    rec = []
    cur = [None]
    MD = P.MessageDataclass
    o_ser, o_de = MD.__dict__['serialize'], MD.__dict__['deserialize']

    def ser(self, compress=False):
        r = o_ser(self, compress)
        rec.append(('ser', self, bytes(r), bool(compress), cur[0]))
        return r

    def de(cls, pos, message, decompress=False):
        o = o_de.__func__(cls, pos, message, decompress)
        rec.append(('de', o, bytes(message), bool(decompress), cur[0]))
        return o

    outcomes = {}
    MD.serialize, MD.deserialize = ser, classmethod(de)
    try:
        for name, fn, kw in _test_calls(mod):
            cur[0] = name
            n0 = len(rec)
            outcomes[name] = _outcome(fn, kw)
            if outcomes[name] != 'pass':
                del rec[n0:]
    finally:
        MD.serialize, MD.deserialize = o_ser, o_de
    return rec, outcomes


def _drive_inflate(factory, stream, k):
    """the canonical bounded-inflate loop (decompress(chunk, k); chunk = unconsumed_tail; until eof), cut when it stalls.
    returns (outcome, output terms, eof, len(unconsumed_tail), unused_data terms, flushed terms)"""
    d = factory()
    out, chunk, calls = [], stream, 0
    limit = len(terms_of(stream)) + 3
    outcome = 'eof'
    try:
        while not d.eof:
            if calls > 3 * limit + 50:
                outcome = 'stall'
                break
            piece = d.decompress(chunk, k)
            out += terms_of(piece)
            chunk = d.unconsumed_tail
            calls += 1
            if not terms_of(piece) and not terms_of(chunk) and not d.eof and calls > limit:
                outcome = 'stall'
                break
    except ZlibNoProgress:
        outcome = 'stall'
    except _zlib.error:
        return ('error', None, None, None, None, None)
    return (outcome, out, bool(d.eof), len(terms_of(d.unconsumed_tail)), terms_of(d.unused_data), terms_of(d.flush()))


def _validate_decompressobj(rng):
    """the streaming stand-in against the real zlib.decompressobj: same outcome (eof / stalls forever / zlib.error), same
    output, eof flag, unconsumed_tail and unused_data on complete, truncated (with and without output), empty, corrupt and
    trailing-garbage streams, for several max_length values; the symbolic 1-byte classification under a tiny exploration"""
    z = _ZlibStub()
    n = 0
    for ln in (0, 1, 2, 7, 40, 300):
        x = bytes(rng.randrange(256) for _ in range(ln))
        co = _zlib.compressobj()
        cases = {
            'complete': (_zlib.compress(x), list(ZTAG) + [z3.BitVec(f'_zd{i}', 8) for i in range(ln)], 'eof', True),
            'truncated': (co.compress(x) + co.flush(_zlib.Z_SYNC_FLUSH), list(ZTRUNC) + [z3.BitVec(f'_zd{i}', 8) for i in range(ln)], 'stall', True),
            'cut': (_zlib.compress(x)[:-1], None, 'stall', False),
            'empty': (b'', None, 'stall', False),
            'one byte': (b'\x78', None, 'stall', False),
            'tag byte': (ZTAG[:1], None, 'stall', False),
            'corrupt': (bytes([_zlib.compress(x)[0] ^ 0x40]) + _zlib.compress(x)[1:], [0x41] + [z3.BitVec(f'_zd{i}', 8) for i in range(ln + 6)], 'error', False),
            'model tag (real zlib must reject it)': (ZTAG + x, 'skip', 'error', False),
            'model truncation tag (real zlib must reject it)': (ZTRUNC + x, 'skip', 'error', False),
            'garbage after': (_zlib.compress(x) + b'GARBAGE', None, 'eof', False),
        }
        for k in (0, 1, 5, 64):
            for name, (real_stream, model_stream, want, compare_output) in cases.items():
                n += 1
                r = _drive_inflate(_zlib.decompressobj, real_stream, k)
                if r[0] != want:
                    raise HarnessError(f'decompressobj validation: real zlib gives {r[0]} on a {name} stream, expected {want}')
                if model_stream == 'skip':
                    continue
                # the stand-in on the very same concrete bytes (delegation to the real object, wrapped)
                g = _drive_inflate(z.decompressobj, SBytes(list(real_stream)), k)
                if g[0] != r[0] or (g[0] != 'error' and (bytes(g[1]) != bytes(r[1]) or g[2:4] != r[2:4] or bytes(g[4]) != bytes(r[4]))):
                    raise HarnessError(f'decompressobj stand-in (concrete data) differs from zlib on a {name} stream, max_length {k}')
                if model_stream is None:
                    continue
                ZLIB_MODEL['truncated_tag'] = True
                try:
                    m = _drive_inflate(z.decompressobj, SBytes(model_stream), k)
                finally:
                    ZLIB_MODEL['truncated_tag'] = False
                if m[0] != r[0]:
                    raise HarnessError(f'decompressobj stand-in (model) gives {m[0]} on a {name} stream, zlib {r[0]} (max_length {k})')
                if m[0] == 'error':
                    continue
                vars_ = model_stream[len(ZTAG):]
                same_out = len(m[1]) == len(vars_) and all(a is b for a, b in zip(m[1], vars_)) and bytes(r[1]) == x
                if not same_out or m[2:4] != r[2:4] or m[4] != [] or bytes(r[4]) != b'' or m[5] != [] or bytes(r[5]) != b'':
                    raise HarnessError(f'decompressobj stand-in (model) differs from zlib on a {name} stream, max_length {k}: {m[2:]} vs {r[2:]}')
    # one-shot decompress must reject what the streaming object calls truncated (zlib: "incomplete or truncated stream")
    for bad in (b'', ZTAG[:1], _zlib.compress(b'abc')[:-1]):
        for f in (_zlib.decompress, z.decompress):
            try:
                f(bad)
                raise HarnessError('one-shot decompress accepted a truncated stream')
            except _zlib.error:
                pass
    # flush() hands out what max_length held back
    for factory, stream in ((_zlib.decompressobj, _zlib.compress(b'hello world')), (z.decompressobj, SBytes(list(ZTAG) + list(b'hello world')))):
        d = factory()
        a = terms_of(d.decompress(stream, 5))
        b = terms_of(d.flush())
        if bytes(a) != b'hello' or bytes(b) != b' world' or not d.eof:
            raise HarnessError('decompressobj flush()')

    # symbolic classification of a 1-byte body: the tag byte is a truncated stream, everything else is corrupt
    seen = {}

    def h(c):
        b = c.fresh_bv('zb', 8)
        r = _drive_inflate(z.decompressobj, SBytes([b]), 16)
        c.check(SBool(b == ZTAG[0]) if r[0] == 'stall' else SBool(b != ZTAG[0]) if r[0] == 'error' else False, 'classified')
        seen[r[0]] = seen.get(r[0], 0) + 1
    ex = symex.Explorer(h, {}, 'decompressobj-classification')
    ex.run()
    if ex.failures or sorted(seen) != ['error', 'stall'] or not ex.exhausted:
        raise HarnessError(f'decompressobj stand-in: symbolic 1-byte classification wrong: {seen} {[f.label for f in ex.failures]}')
    return (f'zlib.decompressobj stand-in == real zlib on {n} (stream kind, max_length) cases: complete, truncated with/without output, empty, '
            f'corrupt, trailing garbage (outcome eof/stalls/error, output, eof, unconsumed_tail, unused_data, flush); symbolic 1-byte body: tag byte '
            f'stalls, any other byte is an error')


def validate(path=TEST_VECTORS, deep=True, text_deep=False):
    """differential validation of every stub against the real function.  Raises HarnessError on
    any disagreement; returns a list of notes for the evidence."""
    import random
    P, M, O = _targets()
    notes = []

    # 1. struct: boundary values through real vs stub, pack and unpack, errors included
    cases = 0
    for fmt in ('<B', '<H', '<I', '<Q', '<b', '<h', '<i', '<q', '<?', '<4s', '<II', '<BxH'):
        real, stub = _struct.Struct(fmt), StructStub(fmt)
        if stub.size != real.size:
            raise HarnessError(f'struct stub size {fmt}')
        if fmt in ('<4s',):
            vals = [(b'',), (b'ab',), (b'abcd',), (b'abcdef',), ('x',)]
        elif fmt == '<?':
            vals = [(True,), (False,), (0,), (5,), ('',), ('x',), (None,)]
        elif fmt in ('<II', '<BxH'):
            vals = [(0, 0), (1, 2), (255, 65535), (2**32 - 1, 2**32 - 1), (2**32, 0), (0, -1), (1,), (1, 2, 3), ('a', 1)]
        else:
            nb, sg = _INT_CODES[fmt[1]]
            lo, hi = (-(1 << (8 * nb - 1)), (1 << (8 * nb - 1)) - 1) if sg else (0, (1 << (8 * nb)) - 1)
            vals = [(v,) for v in (lo, lo + 1, -1, 0, 1, 127, 128, 255, 256, hi - 1, hi, hi + 1, lo - 1, True, 'x', None, 1.5)]
        for v in vals:
            cases += 1
            try:
                want = real.pack(*v)
            except _struct.error:
                want = 'struct.error'
            try:
                got = stub.pack(*v).concrete()
            except _struct.error:
                got = 'struct.error'
            if want != got:
                raise HarnessError(f'struct stub pack {fmt} {v!r}: real {want!r} stub {got!r}')
            if want != 'struct.error':
                for buf, off in ((want, 0), (b'\x01' + want + b'\x02', 1), (want[:-1], 0), (want, 1), (want + b'z', -real.size)):
                    cases += 1
                    try:
                        w2 = real.unpack_from(buf, off)
                    except _struct.error:
                        w2 = 'struct.error'
                    try:
                        g2 = stub.unpack_from(SBytes(list(buf)), off)
                        g2 = tuple(x.concrete() if isinstance(x, SBytes) else x for x in g2)
                    except _struct.error:
                        g2 = 'struct.error'
                    if w2 != g2:
                        raise HarnessError(f'struct stub unpack_from {fmt} {buf!r}@{off}: real {w2!r} stub {g2!r}')
                for buf in (want, want + b'\x00', want[1:]):
                    try:
                        w3 = real.unpack(buf)
                    except _struct.error:
                        w3 = 'struct.error'
                    try:
                        g3 = stub.unpack(SBytes(list(buf)))
                        g3 = tuple(x.concrete() if isinstance(x, SBytes) else x for x in g3)
                    except _struct.error:
                        g3 = 'struct.error'
                    if w3 != g3:
                        raise HarnessError(f'struct stub unpack {fmt} {buf!r}: real {w3!r} stub {g3!r}')
    notes.append(f'struct stub == struct on {cases} boundary pack/unpack cases (errors included)')

    # 2. utf-8 well-formedness formula == CPython's strict decoder; cp1252 undefined set
    def py_ok(bs, enc):
        try:
            bytes(bs).decode(enc)
            return True
        except UnicodeDecodeError:
            return False
    n = 0
    rng = random.Random(1)
    edge = (0x00, 0x7F, 0x80, 0x8F, 0x90, 0x9F, 0xA0, 0xBF, 0xC0, 0xC1, 0xC2, 0xDF, 0xE0, 0xE1, 0xEC, 0xED, 0xEE, 0xEF, 0xF0,
            0xF1, 0xF3, 0xF4, 0xF5, 0xFF)
    seqs = [()] + [(a,) for a in range(256)] + [(a, b) for a in range(256) for b in (range(256) if deep else edge)]
    seqs += [(a, b, d) for a in range(0xE0, 0xF0) for b in range(256) for d in (0x7F, 0x80, 0xBF, 0xC0)]
    seqs += [(a, b, d, e) for a in range(0xF0, 0xF8) for b in range(256) for d in (0x7F, 0x80, 0xBF, 0xC0) for e in (0x41, 0x80, 0xBF, 0xC0)]
    seqs += [tuple(rng.choice(edge) for _ in range(rng.randint(3, 6))) for _ in range(20000 if deep else 2000)]
    for s in seqs:
        n += 1
        if utf8_wellformed(list(s)) is not py_ok(s, 'utf-8'):
            raise HarnessError(f'utf-8 well-formedness formula disagrees with CPython on {bytes(s)!r}')
    for b in range(256):
        if cp1252_defined([b]) is not py_ok((b,), 'cp1252'):
            raise HarnessError(f'cp1252 table disagrees with CPython on byte {b:#x}')
    # the same formula evaluated symbolically (z3 substitution) on a sample
    xs = [z3.BitVec(f'_v{i}', 8) for i in range(4)]
    f4 = utf8_wellformed(xs)
    for s in [q for q in seqs if len(q) == 4][:: max(1, len(seqs) // 400)][:300]:
        got = z3.is_true(z3.simplify(z3.substitute(f4, *[(x, z3.BitVecVal(v, 8)) for x, v in zip(xs, s)])))
        if got is not py_ok(s, 'utf-8'):
            raise HarnessError(f'utf-8 formula (z3) disagrees with CPython on {bytes(s)!r}')
    notes.append(f'utf-8 well-formedness formula == CPython strict decoder on {n} byte sequences (all of length <= 2); cp1252 undefined set exact')

    # 3. zlib tag/untag laws, socket stand-in, int.from_bytes / to_bytes
    z = _ZlibStub()
    for k in range(40):
        buf = bytes(rng.randrange(256) for _ in range(rng.randrange(0, 40)))
        sym = SBytes([z3.BitVec(f'_z{i}', 8) for i in range(len(buf))] or [z3.BitVec('_z', 8)])
        if z.decompress(z.compress(sym)).eq_formula(sym) is not True:
            raise HarnessError('zlib stand-in law decompress(compress(x)) == x (symbolic)')
        if z.decompress(z.compress(buf)).concrete() != buf or _zlib.decompress(_zlib.compress(buf)) != buf:
            raise HarnessError('zlib law decompress(compress(x)) == x (concrete)')
        for f in (z.decompress, _zlib.decompress):
            for g in (ZTAG[:3] + buf, b'\x01' + buf) if f is z.decompress else (ZTAG + buf, ZTAG[:3] + buf):
                try:
                    f(g)
                    raise HarnessError(f'zlib: garbage {g!r} accepted')
                except _zlib.error:
                    pass
    s = _SocketStub()
    for ip in ('0.0.0.0', '1.2.3.4', '255.255.255.255', '127.0.0.1', '10.0.200.3'):
        if s.inet_aton(ip).concrete() != _socket.inet_aton(ip) or s.inet_ntoa(SBytes(list(_socket.inet_aton(ip)))) != ip:
            raise HarnessError('socket stub')
        if not (SIp(SBytes(list(_socket.inet_aton(ip)))) == ip):
            raise HarnessError('SIp equality')
    for bad in (b'', b'abc', b'abcde'):
        try:
            s.inet_ntoa(SBytes(list(bad)))
            raise HarnessError('inet_ntoa length')
        except OSError:
            pass
    notes.append('zlib stand-in obeys decompress(compress(x)) == x and rejects untagged buffers like zlib rejects garbage; inet_aton/ntoa agree')
    notes.append(_validate_decompressobj(rng))

    # RULE for everything below: the code under test may be broken.  A vector test that fails through the real code, or real
    # code that raises, is NOT a harness error (the harnesses decide it and report a VIOLATION); only a *difference between
    # the real and the stubbed run of the same code on the same concrete input* is (the stand-ins misrepresent it).

    # 4. the repository's own vectors: real codec vs stubbed codec, test by test (pass/fail must agree)
    rec, real_out = harvest_vectors(path)
    if list(real_out) == ['<import of the repository vector file>']:
        notes.append(f'repository vector file could not be imported on this tree ({real_out[list(real_out)[0]]}); '
                     'vector-based stub validation skipped, the harnesses decide')
        rec, real_out = [], {}
    stub_out = {}
    if real_out:
        mod = _load_test_module(path)
        with installed(True):
            for name, fn, kw in _test_calls(mod):
                stub_out[name] = _outcome(fn, kw)

    def coarse(o):
        return o if o is None or o == 'pass' or 'Skip' in o else 'fail'
    diff = {k: (real_out[k], stub_out.get(k)) for k in real_out if coarse(real_out[k]) != coarse(stub_out.get(k))}
    if diff:
        raise HarnessError(f'stubbed codec disagrees with the real codec on repository test vectors: {dict(list(diff.items())[:5])}')
    failing = sorted(k for k, v in real_out.items() if v != 'pass' and 'Skip' not in v)
    notes.append(f'{len(real_out)} repository test vectors give the same outcome through the real and the stubbed codec'
                 + (f' ({len(failing)} fail on this tree in both: {failing[:3]})' if failing else ''))

    # 5. every harvested (object, bytes) pair (from vector tests that PASS through the real code) again, with SBytes buffers
    nrec = 0
    with installed(True):
        for kind, obj, data, comp, tname in rec:
            nrec += 1
            cls = type(obj)
            data_s = data
            try:
                if kind == 'ser':
                    got = obj.serialize()
                    if not isinstance(got, SBytes) or got.concrete() != data_s:
                        raise HarnessError(f'stubbed serialize differs from the real one on vector of {tname}')
                back = cls.deserialize(0, SBytes(list(data_s)))
            except HarnessError:
                raise
            except Exception as e:  # noqa
                raise HarnessError(f'stubbed codec raised on a vector the real codec handles ({tname}): {e!r}')
            if kind == 'de' and eq_formula(back, obj) is not True:
                raise HarnessError(f'stubbed deserialize differs from the real one on vector of {tname}')
    notes.append(f'{nrec} harvested (message, bytes) pairs re-run with SBytes buffers: identical objects / bytes')

    # 6. obfuscation, concrete keys/lengths through real vs stubbed module: same bytes or the same exception type
    def outcome(fn):
        try:
            r = fn()
            return ('ok', r.concrete() if isinstance(r, SBytes) else bytes(r))
        except symex.EngineSignal:
            raise
        except HarnessError:
            raise
        except Exception as e:  # noqa
            return ('raise', type(e).__name__)
    n, raising = 0, []
    for ln in list(range(0, 10)) + [126, 127, 128, 129, 131, 132, 133, 140, 260]:
        key = bytes(rng.randrange(256) for _ in range(4))
        data = bytes(rng.randrange(256) for _ in range(ln))
        want = outcome(lambda: O.encode(data, key))
        wd = outcome(lambda: O.decode(key + data))
        with installed(True):
            got = outcome(lambda: O.encode(SBytes(list(data)), SBytes(list(key))))
            gd = outcome(lambda: O.decode(SBytes(list(key + data))))
        if got != want or gd != wd:
            raise HarnessError(f'stubbed obfuscation differs from the real one for length {ln}: encode {want}/{got}, decode {wd}/{gd}')
        if want[0] == 'raise' or wd[0] == 'raise':
            raising.append(ln)
        n += 1
    notes.append(f'obfuscation.encode/decode: real == stubbed on {n} concrete key/length cases (lengths 0..260)'
                 + (f'; the real code RAISES at lengths {raising} on this tree - left to the obfuscation harness' if raising else ''))

    # 7. text codecs on symbolic bytes (utf-8-sig, ascii, latin-1, cp1252, errors=...) against CPython
    from engine import codec_text
    notes.extend(codec_text.validate(deep=text_deep))
    return notes
