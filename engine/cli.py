import argparse
import os
import sys


def main():
    ap = argparse.ArgumentParser()
    ap.add_argument('target', help='property id (C01..C20) or "replay"')
    ap.add_argument('path', nargs='?')
    ap.add_argument('--tier', default=os.environ.get('VERIF_TIER', 'quick'), choices=['quick', 'thorough'])
    ap.add_argument('--only', default=None, help='substring filter on harness:params')
    ap.add_argument('--procs', type=int, default=None)
    a = ap.parse_args()
    logging_off()
    from engine import runner
    if a.target == 'replay':
        sys.exit(runner.replay_file(a.path))
    seed = int(os.environ.get('VERIF_SEED', '0') or 0)
    sys.exit(runner.run_property(a.target.upper(), a.tier, seed, a.only, a.procs))


def logging_off():
    import logging
    logging.disable(logging.CRITICAL)


if __name__ == '__main__':
    main()
