"""job runner: explores every job of a property module (in parallel), replays
counterexamples concretely, matches them against known findings, writes
evidence.  See DESIGN.md §2.5 / §2.7."""
from __future__ import annotations

import hashlib
import importlib
import json
import multiprocessing as mp
import os
import tempfile
import sys
import time
import traceback

VERIF = os.path.dirname(os.path.dirname(os.path.abspath(__file__)))
KNOWN = os.path.join(VERIF, 'known_findings.json')
EXIT_OK, EXIT_VIOLATION, EXIT_HARNESS = 0, 1, 3


def load_module(pid: str):
    return importlib.import_module(f'props.{pid.lower()}')


def _job_key(job):
    return job['harness'] + ':' + json.dumps(job.get('params', {}), sort_keys=True)


def _run_job(args):
    pid, idx, tier = args
    from engine import symex
    mod = load_module(pid)
    job = mod.jobs(tier)[idx]
    t0 = time.perf_counter()
    out = {'harness': job['harness'], 'params': job.get('params', {}), 'idx': idx}
    try:
        ex = symex.Explorer(job['fn'], job.get('params', {}), job['harness'],
                            max_paths=job.get('max_paths', 200000),
                            # hard ceiling per job (quick 300 s / thorough 1800 s, VERIF_JOB_TIMEOUT overrides): on a tree where
                            # a property is broken a path tree can explode; the job is then cut after having reported what it
                            # found (NOT-EXHAUSTED) instead of running for hours
                            timeout_s=min(job.get('timeout_s', 1500 if tier == 'thorough' else 240),
                                          float(os.environ.get('VERIF_JOB_TIMEOUT', '1800' if tier == 'thorough' else '300'))),
                            solver_timeout_ms=job.get('solver_timeout_ms', 20000))
        ex.run()
        st = ex.stats
        out.update(stats={k: getattr(st, k) for k in (
            'paths', 'aborted_paths', 'bound_hits', 'queries', 'solver_s', 'obligations', 'discharged',
            'refuted', 'inconclusive', 'unknown_branches', 'reach', 'labels', 'samples')},
            exhausted=ex.exhausted, witnessed=sorted(ex.witnessed), inconclusive=ex.inconclusive[:10])
        fails = []
        for f in ex.failures:
            c, status = ex.replay(f.model)
            labels = [x[0] for x in c.concrete_failures]
            reproduced = f.label in labels
            fails.append({'label': f.label, 'sig': f.sig, 'model': f.model, 'info': _js(f.info),
                          'replay_status': status, 'replay_failed_labels': labels,
                          'reproduced': reproduced, 'count': ex.failure_keys.get((f.label, repr(f.sig)), 1),
                          'notes': _js(c.notes[:20])})
        out['failures'] = fails
        missing = [l for l in job.get('requires', []) if st.reach.get(l, 0) == 0 and st.labels.get(l, [0])[0] == 0]
        out['missing_labels'] = missing
    except symex.HarnessError as e:
        out['error'] = f'HarnessError: {e}\n{traceback.format_exc()}'
    except BaseException as e:  # noqa
        out['error'] = f'{type(e).__name__}: {e}\n{traceback.format_exc()}'
    out['wall_s'] = time.perf_counter() - t0
    return out


def _js(o):
    try:
        json.dumps(o)
        return o
    except Exception:
        return repr(o)


def load_known():
    if not os.path.exists(KNOWN):
        return []
    return json.load(open(KNOWN)).get('findings', [])


def _sig_match(pat, sig):
    if pat is None:
        return sig is None
    if pat == '*':
        return True
    if isinstance(pat, list):
        if not isinstance(sig, (list, tuple)) or len(sig) != len(pat):
            return False
        return all(_sig_match(p, s) for p, s in zip(pat, sig))
    return pat == sig


def match_known(known, pid, harness, label, sig):
    sig = json.loads(json.dumps(sig))
    for k in known:
        if k.get('status', 'known') != 'known':
            continue  # 'fixed' entries suppress nothing
        if k['property'] != pid or k['label'] != label:
            continue
        if k.get('harness') not in (None, '*', harness):
            continue
        if _sig_match(k.get('sig'), sig):
            return k
    return None


def run_property(pid: str, tier: str, seed: int = 0, only: str | None = None, procs: int | None = None) -> int:
    t0 = time.perf_counter()
    mod = load_module(pid)
    meta = dict(getattr(mod, 'META', {}))
    prelude_notes = []
    try:
        if hasattr(mod, 'prelude'):
            prelude_notes = mod.prelude(tier) or []
    except Exception as e:
        print(f'HARNESS-ERROR property={pid} prelude failed: {e}')
        traceback.print_exc()
        return EXIT_HARNESS
    jobs = mod.jobs(tier)
    idxs = [i for i, j in enumerate(jobs) if only is None or only in _job_key(j)]
    procs = procs or min(int(os.environ.get('VERIF_PROCS', '16' if tier == 'thorough' else '8')), max(1, len(idxs)))
    if procs > 1:
        mpctx = mp.get_context('fork')
        with mpctx.Pool(procs, maxtasksperchild=8) as pool:
            results = pool.map(_run_job, [(pid, i, tier) for i in idxs], chunksize=1)
    else:
        results = [_run_job((pid, i, tier)) for i in idxs]

    known = load_known()
    tot = dict(paths=0, aborted_paths=0, bound_hits=0, queries=0, solver_s=0.0, obligations=0, discharged=0,
               refuted=0, inconclusive=0, unknown_branches=0)
    labels: dict = {}
    reach: dict = {}
    samples = []
    errors = []
    violations = []
    known_hits = []
    nonrepro = []
    not_exhausted = []
    per_job = []
    for r in results:
        if 'error' in r:
            errors.append(f"{r['harness']} {r['params']}: {r['error']}")
            continue
        st = r['stats']
        for k in tot:
            tot[k] += st[k]
        for k, v in st['labels'].items():
            cur = labels.setdefault(k, [0, 0])
            cur[0] += v[0]
            cur[1] += v[1]
        for k, v in st['reach'].items():
            reach[k] = reach.get(k, 0) + v
        if len(samples) < 5 and st['samples']:
            samples.append({'harness': r['harness'], 'params': r['params'], **st['samples'][0]})
        if not r['exhausted']:
            not_exhausted.append(_job_key(r))
        if r['missing_labels']:
            errors.append(f"{r['harness']} {r['params']}: required labels never reached: {r['missing_labels']}")
        per_job.append({'harness': r['harness'], 'params': r['params'], 'paths': st['paths'],
                        'obligations': st['obligations'], 'discharged': st['discharged'],
                        'refuted': st['refuted'], 'inconclusive': st['inconclusive'],
                        'bound_hits': st['bound_hits'], 'wall_s': round(r['wall_s'], 2), 'exhausted': r['exhausted']})
        for f in r['failures']:
            rec = {'property': pid, 'harness': r['harness'], 'params': r['params'], **f}
            if not f['reproduced']:
                nonrepro.append(rec)
                continue
            k = match_known(known, pid, r['harness'], f['label'], f['sig'])
            if k:
                known_hits.append((k, rec))
            else:
                violations.append(rec)

    # ---- report ---------------------------------------------------------------
    rc = EXIT_OK
    seen_known = set()
    for k, rec in known_hits:
        kk = json.dumps(k, sort_keys=True)
        if kk in seen_known:
            continue
        seen_known.add(kk)
        print(f"KNOWN-FINDING: property={pid} {k.get('what', rec['label'])}")
    os.makedirs(os.path.join(VERIF, 'replays'), exist_ok=True)
    for rec in violations:
        h = hashlib.sha256(json.dumps([rec['harness'], rec['params'], rec['label'], rec['sig']], sort_keys=True).encode()).hexdigest()[:10]
        path = os.path.join(VERIF, 'replays', f'{pid}-{h}.json')
        json.dump(rec, open(path, 'w'), indent=1, sort_keys=True)
        print(f"VIOLATION property={pid} replay={path}")
        print(f"  harness={rec['harness']} params={rec['params']} label={rec['label']} sig={rec['sig']} info={rec['info']}")
        rc = EXIT_VIOLATION
    for rec in nonrepro:
        errors.append(f"counterexample did not reproduce concretely (encoding/stub wrong?): {rec['harness']} {rec['params']} "
                      f"label={rec['label']} sig={rec['sig']} model={rec['model']} replay={rec['replay_status']}/{rec['replay_failed_labels']}")
    if tot['discharged'] == 0 and not violations:
        errors.append('zero obligations discharged')
    for e in errors:
        print(f'HARNESS-ERROR property={pid} {e}')
    if errors and rc == EXIT_OK:
        rc = EXIT_HARNESS
    if tot['inconclusive']:
        print(f"INCONCLUSIVE property={pid} obligations={tot['inconclusive']} (solver unknown) — not counted as discharged")
    if not_exhausted:
        print(f"NOT-EXHAUSTED property={pid} jobs={not_exhausted[:5]} (path/time budget hit; remaining paths are outside this run's claim)")

    wall = time.perf_counter() - t0
    nontrivial = sum(1 for v in labels.values() if v[1] > 0)
    ev = {
        'property_id': pid,
        'tier': tier,
        'seed': seed,
        'level': meta.get('level', 'other'),
        'coverage': {
            'explanation': meta.get('explanation', ''),
            'technique': meta.get('technique', 'symbolic execution of the real functions on z3 proxies; per-path obligations decided by z3'),
            'functions_encoded': _functions(meta.get('functions', [])),
            'stubs': meta.get('stubs', []),
            'bounds': (meta.get('bounds', {}) or {}).get(tier, meta.get('bounds', {})),
            'outside_claim': meta.get('outside', []),
            'symbolic_data_variables': meta.get('data_variables', []),
            'enumerated_discriminants': meta.get('discriminants', []),
            'evaluations': tot['paths'],
            'distinct_nontrivial': sum(v[1] for v in labels.values()),
            'rule': 'evaluations = feasible paths of the real code executed to the end (each a distinct decision prefix); '
                    'distinct_nontrivial = obligations discharged by a z3 unsat verdict over all values of the symbolic '
                    'variables on such a path (constant-true conditions included only when the path itself is symbolic)',
            'paths': tot['paths'],
            'aborted_paths': tot['aborted_paths'],
            'bound_hits': tot['bound_hits'],
            'obligations': tot['obligations'],
            'discharged': tot['discharged'],
            'refuted_on_model': tot['refuted'],
            'inconclusive': tot['inconclusive'],
            'unknown_branches': tot['unknown_branches'],
            'solver_queries': tot['queries'],
            'solver_s': round(tot['solver_s'], 3),
            'obligation_labels': {k: {'obligations': v[0], 'discharged': v[1]} for k, v in sorted(labels.items())},
            'reach_counts': reach,
            'jobs': len(results),
            'jobs_not_exhausted': not_exhausted,
            'per_job': per_job[:400],
            'counterexamples_replayed': len(violations) + len(known_hits) + len(nonrepro),
            'counterexamples_reproduced': len(violations) + len(known_hits),
            'known_findings_hit': [k.get('what') for k, _ in known_hits][:20],
            'prelude': prelude_notes,
            'samples': samples or [{'note': 'no symbolic sample recorded'}],
            'exhaustive': not not_exhausted and tot['inconclusive'] == 0,
            'checker_cmd': f'./vcheck {pid} --tier {tier}',
            'trusted_base': meta.get('trusted_base', ['CPython 3.12', 'z3 5.1.0', 'engine/symex.py proxies', 'stubs listed above']),
        },
        'assumptions': meta.get('assumptions', []),
        'wall_s': round(wall, 2),
        'violations': len(violations),
    }
    # evidence/ only ever describes runs against /repo itself: a development run against another tree
    # (VERIF_REPO_SRC, used for candidate fixes and seeded changes) writes to a scratch directory instead
    evdir = os.path.join(VERIF, 'evidence')
    if os.environ.get('VERIF_REPO_SRC'):
        evdir = os.path.join(tempfile.gettempdir(), 'verif-dev-evidence', str(os.getpid()))
    os.makedirs(evdir, exist_ok=True)
    json.dump(ev, open(os.path.join(evdir, f'{pid}.json'), 'w'), indent=1, sort_keys=True, default=repr)
    print(f"property={pid} tier={tier} jobs={len(results)} paths={tot['paths']} obligations={tot['obligations']} "
          f"discharged={tot['discharged']} refuted={tot['refuted']} inconclusive={tot['inconclusive']} "
          f"queries={tot['queries']} solver_s={tot['solver_s']:.1f} wall_s={wall:.1f} exit={rc}")
    return rc


def _functions(fns):
    from engine.symex import source_hash
    out = []
    for f in fns:
        if isinstance(f, str):
            out.append(f)
            continue
        try:
            out.append(f'{f.__module__}:{f.__qualname__}@{source_hash(f)}')
        except Exception:
            out.append(repr(f))
    return out


def replay_file(path: str) -> int:
    from engine import symex
    rec = json.load(open(path))
    pid = rec['property']
    mod = load_module(pid)
    for tier in ('quick', 'thorough'):
        for job in mod.jobs(tier):
            if job['harness'] == rec['harness'] and json.loads(json.dumps(job.get('params', {}))) == rec['params']:
                ex = symex.Explorer(job['fn'], job.get('params', {}), job['harness'])
                c, status = ex.replay(rec['model'])
                print(f'replay status={status} concrete_checks={c.concrete_checks} failed={c.concrete_failures}')
                for n in c.notes[:40]:
                    print('  note:', n)
                if any(l[0] == rec['label'] for l in c.concrete_failures):
                    print(f"VIOLATION property={pid} replay={path}")
                    return EXIT_VIOLATION
                return EXIT_OK
    print('no matching job for replay file')
    return EXIT_HARNESS
