"""SStr: shape-concrete symbolic strings (DESIGN §2.2), a forking `re` engine, POSIX
path helpers and an in-memory file system for them.

A string has a *concrete length on every path*; each character is either a plain
Python character or a z3 bit-vector: an index into a finite alphabet Σ (sorted by code
point, so index order = code point order).  All structure-revealing operations (find,
split, strip, regex matching, path-separator scans) decide one character test at a time
with `bool(SBool)` — i.e. they fork through `Ctx.branch` — hence on every path each
such test has one fixed outcome and the result is exactly what CPython computes for
every concrete string that satisfies the path condition.  Value-level operations
(`==`, `startswith`, `endswith`) return an `SBool`/`bool` and do not fork themselves.

Carrying symbolic characters through C code: `str(s)`, `format(s)` and f-strings
produce a plain `str` of the same length in which every symbolic character is a
private-use code point (plane 15; plane 16 once it went through `re.escape`) registered
in the per-path table; `lift()` turns such a string back into an `SStr`.  Every shim in
here lifts its arguments.  A carrier string is exact as *data*; Python's own `str`
methods applied to it would treat a placeholder as an unknown foreign character, so the
code under test must hand it to a shim before it is inspected (true for C09's code:
f-string -> os.path.join / exists / split).

Nothing in here knows about aioslsk.  Everything that is a stand-in for a C function
(`re`, `os.path`, `int`) also runs on plain `str` input so that it can be compared with
the real function (`selftest`).
"""
from __future__ import annotations

import re as _re
import re._constants as _rc
import re._parser as _rp
import unicodedata

import z3

from engine import symex
from engine.symex import HarnessError, SBool, SInt

DEFAULT_SIGMA = ['a', 'b', 'c', 'A', 'B', 'é', 'É', '1', '_', '-', '.', '(', ' ', '\\', '/', '@', ':', '中']

PUA0 = 0xF0000      # placeholder of a symbolic character
PUA1 = 0x100000     # the same character after re.escape(): a literal inside a regex text
PUA_N = 0xFFFE


# ------------------------------------------------------------------------------
# alphabet and per-path state
# ------------------------------------------------------------------------------

class Alphabet:
    def __init__(self, chars):
        cs = sorted(set(chars))
        for ch in cs:
            if not isinstance(ch, str) or len(ch) != 1 or ord(ch) >= PUA0:
                raise HarnessError(f'bad alphabet member {ch!r}')
        if len(cs) < 2:
            raise HarnessError('alphabet needs at least two characters')
        self.chars = cs
        self.n = len(cs)
        self.width = max(1, (self.n - 1).bit_length())
        self.index = {ch: i for i, ch in enumerate(cs)}
        self._masks: dict = {}
        self._case: dict = {}
        self._vals = [z3.BitVecVal(i, self.width) for i in range(self.n + 1)]
        self._mask_exprs: dict = {}   # (variable ast id, mask) -> (variable, formula); lives across paths

    def mask(self, key, pred) -> frozenset:
        m = self._masks.get(key)
        if m is None:
            m = self._masks[key] = frozenset(i for i, ch in enumerate(self.chars) if pred(ch))
        return m

    def case_map(self, which: str) -> dict:
        """index -> index for str.lower / str.upper; Σ must be closed under it"""
        m = self._case.get(which)
        if m is None:
            m = {}
            for i, ch in enumerate(self.chars):
                t = getattr(ch, which)()
                if t == ch:
                    continue
                if len(t) != 1 or t not in self.index:
                    raise HarnessError(f'alphabet is not closed under {which}(): {ch!r} -> {t!r}')
                m[i] = self.index[t]
            self._case[which] = m
        return m

    def val(self, i: int):
        return self._vals[i] if i <= self.n else z3.BitVecVal(i, self.width)


_ALPHABET = Alphabet(DEFAULT_SIGMA)


def use_alphabet(chars) -> Alphabet:
    """select Σ for the strings created from now on (call at the start of a harness)"""
    global _ALPHABET
    if isinstance(chars, Alphabet):
        _ALPHABET = chars
    elif _ALPHABET.chars != sorted(set(chars)):
        _ALPHABET = Alphabet(chars)
    return _ALPHABET


class _State:
    def __init__(self, sigma: Alphabet):
        self.sigma = sigma
        self.exprs: list = []      # placeholder number -> bit-vector expression
        self.ids: dict = {}        # expr.get_id() -> placeholder number
        self.memo: dict = {}       # (expr id, mask) -> outcome decided earlier on this path


def _st() -> _State:
    c = symex.ctx()
    st = c.__dict__.get('_sstr_state')
    if st is None:
        st = _State(_ALPHABET)
        c.__dict__['_sstr_state'] = st
    return st


def _placeholder(e) -> int:
    st = _st()
    k = st.ids.get(e.get_id())
    if k is None:
        k = len(st.exprs)
        if k >= PUA_N:
            raise HarnessError('too many symbolic characters on one path')
        st.exprs.append(e)
        st.ids[e.get_id()] = k
    return k


def _is_sym(ch) -> bool:
    return not isinstance(ch, str)


def _norm(ch):
    """a bit-vector constant is a concrete character"""
    if isinstance(ch, str):
        return ch
    if z3.is_bv_value(ch):
        return _st().sigma.chars[ch.as_long()]
    return ch


def _decide(cond) -> bool:
    """truth value of a character-level condition; forks when both outcomes are feasible.  A condition
    that was decided earlier on this path (same z3 term) is answered from the per-path memo: the path
    condition only grows, so the earlier answer still holds."""
    if cond is True or cond is False:
        return cond
    e = cond.e if isinstance(cond, SBool) else z3.simplify(cond)
    if z3.is_true(e):
        return True
    if z3.is_false(e):
        return False
    memo = _st().memo
    k = ('d', e.get_id())
    r = memo.get(k)
    if r is None:
        v = symex.ctx().branch(e)
        memo[k] = (e, v)
        return v
    return r[1]


def _sb(cond):
    """bool | z3 Bool -> bool | SBool (simplified; never forks)"""
    if cond is True or cond is False:
        return cond
    s = z3.simplify(cond)
    if z3.is_true(s):
        return True
    if z3.is_false(s):
        return False
    return SBool(s)


def _z(cond):
    if isinstance(cond, bool):
        return z3.BoolVal(cond)
    if isinstance(cond, SBool):
        return cond.e
    return cond


def _and(conds):
    out = []
    for x in conds:
        if x is False:
            return False
        if x is True:
            continue
        out.append(_z(x))
    if not out:
        return True
    return out[0] if len(out) == 1 else z3.And(out)


def _or(conds):
    out = []
    for x in conds:
        if x is True:
            return True
        if x is False:
            continue
        out.append(_z(x))
    if not out:
        return False
    return out[0] if len(out) == 1 else z3.Or(out)


def _not(x):
    if x is True:
        return False
    if x is False:
        return True
    return z3.Not(_z(x))


# ---- character level ----------------------------------------------------------

def ch_eq(a, b):
    """bool | z3 Bool"""
    sa, sb = _is_sym(a), _is_sym(b)
    if not sa and not sb:
        return a == b
    if sa and sb:
        if a.eq(b):
            return True
        return a == b
    if sb:
        a, b = b, a
    sg = _st().sigma
    i = sg.index.get(b)
    if i is None:
        return False
    return a == sg.val(i)


def _mask_expr(e, mask):
    sg = _st().sigma
    if not mask:
        return False
    if len(mask) == sg.n:
        return True
    k = (e.get_id(), mask)
    hit = sg._mask_exprs.get(k)
    if hit is not None:
        return hit[1]
    if len(mask) * 2 <= sg.n:
        r = _or([e == sg.val(i) for i in sorted(mask)])
    else:
        r = z3.Not(_or([e == sg.val(i) for i in range(sg.n) if i not in mask]))
    if len(sg._mask_exprs) < 200000:
        sg._mask_exprs[k] = (e, r)      # keeps `e` alive, so its id stays valid
    return r


def ch_in(ch, key, pred):
    """does the character satisfy `pred` (a predicate on concrete characters, identified
    by the hashable `key`)?  bool | z3 Bool"""
    if not _is_sym(ch):
        return bool(pred(ch))
    return _mask_expr(ch, _st().sigma.mask(key, pred))


def ch_test(ch, key, pred) -> bool:
    """forking version of ch_in, with a per-path memo so that a character is asked the same
    question only once"""
    if not _is_sym(ch):
        return bool(pred(ch))
    st = _st()
    mask = st.sigma.mask(key, pred)
    if not mask:
        return False
    if len(mask) == st.sigma.n:
        return True
    mk = (ch.get_id(), mask)
    r = st.memo.get(mk)
    if r is None:
        r = _decide(_mask_expr(ch, mask))
        st.memo[mk] = (ch, r)   # keeps the expression (and its id) alive
        return r
    return r[1]


def ch_is(ch, lit: str) -> bool:
    """forking ch == literal"""
    if not _is_sym(ch):
        return ch == lit
    return ch_test(ch, ('=', lit), lambda c: c == lit)


def _case_expr(e, which):
    sg = _st().sigma
    m = sg.case_map(which)
    r = e
    for i, j in m.items():
        r = z3.If(e == sg.val(i), sg.val(j), r)
    return r


def _ch_case(ch, which):
    if not _is_sym(ch):
        return getattr(ch, which)()
    if not _st().sigma.case_map(which):
        return ch
    return _norm(z3.simplify(_case_expr(ch, which)))


def _case1(ch, which):
    r = _ch_case(ch, which)
    return ch if isinstance(r, str) and len(r) != 1 else r


def _ch_lt(a, b):
    """code point order; bool | z3 Bool"""
    sa, sb = _is_sym(a), _is_sym(b)
    if not sa and not sb:
        return a < b
    sg = _st().sigma
    if sa and sb:
        return z3.ULT(a, b)
    import bisect
    if sa:   # symbolic a < concrete b  <=>  index(a) < number of Σ characters below b
        k = bisect.bisect_left(sg.chars, b)
        return False if k == 0 else (True if k >= sg.n else z3.ULT(a, sg.val(k)))
    k = bisect.bisect_right(sg.chars, a)   # concrete a < symbolic b <=> index(b) >= #(Σ chars <= a)
    return True if k == 0 else (False if k >= sg.n else z3.UGE(b, sg.val(k)))


# ------------------------------------------------------------------------------
# SStr
# ------------------------------------------------------------------------------

def has_sym(x) -> bool:
    if isinstance(x, SStr):
        return True
    if isinstance(x, str):
        return (not x.isascii()) and any(ord(ch) >= PUA0 for ch in x)
    return False


def lift(x) -> 'SStr':
    """str (possibly a carrier with placeholders) | SStr -> SStr"""
    if isinstance(x, SStr):
        return x
    if not isinstance(x, str):
        raise TypeError(f'expected a string, got {type(x).__name__}')
    _no_inert_numbers(x)
    if x.isascii() or not has_sym(x):
        return SStr(tuple(x))
    st = _st()
    cs = []
    for ch in x:
        o = ord(ch)
        if o >= PUA0:
            k = (o - PUA0) if o < PUA1 else (o - PUA1)
            if k >= len(st.exprs):
                raise HarnessError('placeholder character from another path')
            cs.append(st.exprs[k])
        else:
            cs.append(ch)
    return SStr(tuple(cs))


def _mk(cs):
    """collapse to a plain str when nothing symbolic is left"""
    cs = tuple(_norm(ch) for ch in cs)
    if all(isinstance(ch, str) for ch in cs):
        return ''.join(cs)
    return SStr(cs)


def _chars(x) -> tuple:
    return x.cs if isinstance(x, SStr) else lift(x).cs


def _isstr(x) -> bool:
    return isinstance(x, (str, SStr))


_WS = ('ws', str.isspace)


class SStr:
    __slots__ = ('cs',)

    def __init__(self, cs):
        self.cs = tuple(cs)

    # ---- shape ---------------------------------------------------------------
    def __len__(self):
        return len(self.cs)

    def __bool__(self):
        return len(self.cs) > 0

    def __iter__(self):
        for ch in self.cs:
            yield _mk((ch,))

    def __getitem__(self, i):
        if isinstance(i, slice):
            return _mk(self.cs[i])
        if isinstance(i, SInt):
            i = i.__index__()
        return _mk((self.cs[i],))

    def is_concrete(self):
        return all(isinstance(_norm(ch), str) for ch in self.cs)

    # ---- carrying through C code ------------------------------------------
    def carrier(self, escaped: bool = False) -> str:
        out = []
        for ch in self.cs:
            ch = _norm(ch)
            if isinstance(ch, str):
                out.append(ch)
            else:
                out.append(chr((PUA1 if escaped else PUA0) + _placeholder(ch)))
        return ''.join(out)

    def __str__(self):
        return self.carrier()

    def __format__(self, spec):
        if spec:
            raise HarnessError(f'format spec {spec!r} on a symbolic string')
        return self.carrier()

    def __repr__(self):
        return f'<SStr {len(self.cs)}>'

    def __hash__(self):
        # constant: hash containers fall through to ==, which forks.  Sound only when
        # every string key of the container is an SStr (DESIGN §2.2).
        return 0x5357

    def encode(self, *a, **kw):
        raise HarnessError('encode() of a symbolic string (C boundary reached)')

    # ---- concatenation ---------------------------------------------------------
    def __add__(self, o):
        if not _isstr(o):
            return NotImplemented
        return _mk(self.cs + _chars(o))

    def __radd__(self, o):
        if not _isstr(o):
            return NotImplemented
        return _mk(_chars(o) + self.cs)

    def __mul__(self, n):
        if isinstance(n, SInt):
            n = n.__index__()
        return _mk(self.cs * n)

    __rmul__ = __mul__

    def join(self, parts):
        out = []
        for i, p in enumerate(parts):
            if i:
                out.extend(self.cs)
            out.extend(_chars(p))
        return _mk(out)

    # ---- value comparisons (never fork) ---------------------------------------
    def _eq_at(self, i, sub):
        """self[i:i+len(sub)] == sub  as bool | z3 Bool"""
        if i < 0 or i + len(sub) > len(self.cs):
            return False
        return _and(ch_eq(self.cs[i + k], sub[k]) for k in range(len(sub)))

    def __eq__(self, o):
        if not _isstr(o):
            return False
        oc = _chars(o)
        if len(oc) != len(self.cs):
            return False
        return _sb(self._eq_at(0, oc))

    def __ne__(self, o):
        r = self.__eq__(o)
        return (not r) if isinstance(r, bool) else ~r

    def startswith(self, prefix, start=0, end=None):
        if isinstance(prefix, tuple):
            return _sb(_or([self.startswith(p, start, end) for p in prefix]))
        s = self if (start == 0 and end is None) else lift(self[start:end])
        return _sb(s._eq_at(0, _chars(prefix)))

    def endswith(self, suffix, start=0, end=None):
        if isinstance(suffix, tuple):
            rs = [self.endswith(p, start, end) for p in suffix]
            return _sb(_or(rs))
        s = self if (start == 0 and end is None) else lift(self[start:end])
        sc = _chars(suffix)
        return _sb(s._eq_at(len(s.cs) - len(sc), sc))

    def __contains__(self, sub):
        sc = _chars(sub)
        return _decide(_or(self._eq_at(i, sc) for i in range(len(self.cs) - len(sc) + 1)))

    # ---- ordering (forks character by character) ------------------------------
    def _cmp(self, o) -> int:
        oc = _chars(o)
        for a, b in zip(self.cs, oc):
            if _decide(ch_eq(a, b)):
                continue
            return -1 if _decide(_ch_lt(a, b)) else 1
        return (len(self.cs) > len(oc)) - (len(self.cs) < len(oc))

    def __lt__(self, o):
        return self._cmp(o) < 0 if _isstr(o) else NotImplemented

    def __le__(self, o):
        return self._cmp(o) <= 0 if _isstr(o) else NotImplemented

    def __gt__(self, o):
        return self._cmp(o) > 0 if _isstr(o) else NotImplemented

    def __ge__(self, o):
        return self._cmp(o) >= 0 if _isstr(o) else NotImplemented

    # ---- searching (forks over positions) ----------------------------------
    def _range(self, start, end):
        n = len(self.cs)
        start, end, _ = slice(start, end).indices(n)
        return start, end

    def _is_at(self, i, sc) -> bool:
        if len(sc) == 1 and isinstance(sc[0], str):
            return ch_is(self.cs[i], sc[0])
        return _decide(self._eq_at(i, sc))

    def find(self, sub, start=None, end=None):
        sc = _chars(sub)
        a, b = self._range(start, end)
        for i in range(a, b - len(sc) + 1):
            if self._is_at(i, sc):
                return i
        return -1

    def rfind(self, sub, start=None, end=None):
        sc = _chars(sub)
        a, b = self._range(start, end)
        for i in range(b - len(sc), a - 1, -1):
            if self._is_at(i, sc):
                return i
        return -1

    def index(self, sub, start=None, end=None):
        i = self.find(sub, start, end)
        if i < 0:
            raise ValueError('substring not found')
        return i

    def rindex(self, sub, start=None, end=None):
        i = self.rfind(sub, start, end)
        if i < 0:
            raise ValueError('substring not found')
        return i

    def count(self, sub, start=None, end=None):
        sc = _chars(sub)
        a, b = self._range(start, end)
        if not sc:
            return max(0, b - a + 1)
        n, i = 0, a
        while True:
            i = self.find(sub, i, b)
            if i < 0:
                return n
            n += 1
            i += len(sc)

    def split(self, sep=None, maxsplit=-1):
        if sep is None:
            return self._split_ws(maxsplit)
        sc = _chars(sep)
        if not sc:
            raise ValueError('empty separator')
        parts, i = [], 0
        while maxsplit != 0:
            j = self.find(sep, i)
            if j < 0:
                break
            parts.append(self[i:j])
            i = j + len(sc)
            maxsplit -= 1
        parts.append(self[i:])
        return parts

    def _split_ws(self, maxsplit):
        parts, n, i = [], len(self.cs), 0
        while True:
            while i < n and ch_test(self.cs[i], *_WS):
                i += 1
            if i >= n:
                break
            if maxsplit == 0:
                parts.append(lift(self[i:]).rstrip())
                break
            j = i
            while j < n and not ch_test(self.cs[j], *_WS):
                j += 1
            parts.append(self[i:j])
            maxsplit -= 1
            i = j
        return parts

    def rsplit(self, sep=None, maxsplit=-1):
        if sep is None:
            if maxsplit < 0:
                return self._split_ws(-1)
            raise HarnessError('rsplit(None, maxsplit) not modelled')
        sc = _chars(sep)
        if not sc:
            raise ValueError('empty separator')
        parts, j = [], len(self.cs)
        while maxsplit != 0:
            i = self.rfind(sep, 0, j)
            if i < 0:
                break
            parts.append(self[i + len(sc):j])
            j = i
            maxsplit -= 1
        parts.append(self[:j])
        parts.reverse()
        return parts

    def partition(self, sep):
        i = self.find(sep)
        if i < 0:
            return self, '', ''
        return self[:i], self[i:i + len(sep)], self[i + len(sep):]

    def rpartition(self, sep):
        i = self.rfind(sep)
        if i < 0:
            return '', '', self
        return self[:i], self[i:i + len(sep)], self[i + len(sep):]

    def _strip_test(self, chars):
        if chars is None:
            return lambda ch: ch_test(ch, *_WS)
        cc = _chars(chars)
        if all(isinstance(x, str) for x in cc):
            fs = frozenset(cc)
            return lambda ch: ch_test(ch, ('in', fs), lambda c: c in fs)
        return lambda ch: _decide(_or(ch_eq(ch, x) for x in cc))

    def lstrip(self, chars=None):
        t, i = self._strip_test(chars), 0
        while i < len(self.cs) and t(self.cs[i]):
            i += 1
        return self[i:]

    def rstrip(self, chars=None):
        t, j = self._strip_test(chars), len(self.cs)
        while j > 0 and t(self.cs[j - 1]):
            j -= 1
        return self[:j]

    def strip(self, chars=None):
        r = self.lstrip(chars)
        return r.rstrip(chars) if isinstance(r, SStr) else r.strip(None if chars is None else str(chars))

    def replace(self, old, new, count=-1):
        oc = _chars(old)
        if not oc:
            raise HarnessError('replace with empty pattern not modelled')
        out, i = [], 0
        while count != 0:
            j = self.find(old, i)
            if j < 0:
                break
            out.extend(self.cs[i:j])
            out.extend(_chars(new))
            i = j + len(oc)
            count -= 1
        out.extend(self.cs[i:])
        return _mk(out)

    def removeprefix(self, p):
        return self[len(p):] if _decide(self.startswith(p)) else self

    def removesuffix(self, p):
        r = self.endswith(p)
        return self[:len(self.cs) - len(p)] if (len(p) and _decide(r)) else self

    # ---- per-character maps and classes -------------------------------------
    def lower(self):
        out = []
        for ch in self.cs:
            r = _ch_case(ch, 'lower')
            out.extend(r) if isinstance(r, str) else out.append(r)
        return _mk(out)

    def upper(self):
        out = []
        for ch in self.cs:
            r = _ch_case(ch, 'upper')
            out.extend(r) if isinstance(r, str) else out.append(r)
        return _mk(out)

    casefold = lower

    def _all(self, key, pred):
        if not self.cs:
            return False
        return _decide(_and(ch_in(ch, key, pred) for ch in self.cs))

    def isdigit(self):
        return self._all('isdigit', str.isdigit)

    def isdecimal(self):
        return self._all('isdecimal', str.isdecimal)

    def isalpha(self):
        return self._all('isalpha', str.isalpha)

    def isalnum(self):
        return self._all('isalnum', str.isalnum)

    def isspace(self):
        return self._all('isspace', str.isspace)

    def isascii(self):
        return _decide(_and(ch_in(ch, 'isascii', str.isascii) for ch in self.cs))


class numeric_formatting:
    """while active, formatting a symbolic integer (f-string, str(), format()) yields its decimal digits
    by sound concretisation (the path forks over every feasible value) instead of symex's inert
    '<SInt>' text, so that a number computed by the code under test can become part of a file name.
    Work-around kept in this module: engine/symex.py is not edited; the class attributes are restored on exit."""
    _INERT = ('<SInt>', '<SReal>', '<SBool>', '<SStr ', '<SMatch ')

    def __enter__(self):
        self._saved = (symex.SInt.__dict__.get('__format__'), symex.SInt.__dict__.get('__str__'))

        def fmt(v, spec=''):
            return format(symex.ctx().concretize(v), spec)

        def to_str(v):
            return str(symex.ctx().concretize(v))
        symex.SInt.__format__ = fmt
        symex.SInt.__str__ = to_str
        return self

    def __exit__(self, *a):
        for name, old in zip(('__format__', '__str__'), self._saved):
            if old is None:
                try:
                    delattr(symex.SInt, name)
                except AttributeError:
                    pass
            else:
                setattr(symex.SInt, name, old)


def _no_inert_numbers(x: str):
    if '<S' in x and any(t in x for t in numeric_formatting._INERT):
        raise HarnessError('a symbolic value was formatted into a string as inert text (repr(), or a number outside sstr.numeric_formatting)')


# ---- constructors / conversions ---------------------------------------------------

def fresh_str(c, base: str, n: int, exclude: str = '', only: str = ''):
    """n fresh characters over Σ.  Symbolic run: SStr; concrete replay: the plain str
    given by the model.  `exclude` / `only` restrict every character to a subset of Σ
    (an assumption, listed by the harness)."""
    sg = _st().sigma if c.symbolic else _ALPHABET
    if not c.symbolic:
        return ''.join(sg.chars[c.fresh_bv(f'{base}[{i}]', sg.width) % sg.n] for i in range(n))
    cs, cons = [], []
    for i in range(n):
        e = c.fresh_bv(f'{base}[{i}]', sg.width)
        if sg.n < (1 << sg.width):
            cons.append(z3.ULT(e, sg.val(sg.n)))
        if only:
            cons.append(_z(_or([e == sg.val(sg.index[ch]) for ch in only if ch in sg.index])))
        for ch in exclude:
            if ch in sg.index:
                cons.append(e != sg.val(sg.index[ch]))
        cs.append(e)
    if cons:
        c._add(z3.And(cons) if len(cons) > 1 else cons[0])
    return SStr(cs) if cs else ''


def concretize(x, model) -> str:
    """value of a (symbolic) string under a z3 model"""
    sg = _st().sigma
    out = []
    for ch in _chars(x):
        if isinstance(ch, str):
            out.append(ch)
        else:
            out.append(sg.chars[model.eval(ch, model_completion=True).as_long() % sg.n])
    return ''.join(out)


def eq(a, b):
    """a == b as bool | SBool for any mix of str / SStr (never forks)"""
    if isinstance(a, str) and isinstance(b, str) and not has_sym(a) and not has_sym(b):
        return a == b
    return lift(a) == b


def all_chars(s, key, pred):
    """every character of s satisfies pred: bool | SBool (never forks)"""
    return _sb(_and(ch_in(ch, key, pred) for ch in _chars(s)))


def _digit_value(ch):
    return unicodedata.decimal(ch)


def sym_int(x, base=10):
    """stand-in for builtins.int: decimal digit strings with symbolic characters become an
    SInt; everything else goes to the real int / symex.sym_int"""
    if isinstance(x, str) and not has_sym(x):
        return int(x, base)
    if not _isstr(x):
        if base != 10:
            return int(x, base)
        return symex.sym_int(x)
    if base != 10:
        raise HarnessError('int(symbolic string, base) not modelled')
    cs = _chars(x)
    if not cs:
        raise ValueError("invalid literal for int() with base 10: ''")
    sg = _st().sigma
    terms = []
    for k, ch in enumerate(cs):
        w = 10 ** (len(cs) - 1 - k)
        if ch_test(ch, 'int-other', lambda c: c.isspace() or c in '+-_'):
            raise HarnessError('int() of a string with sign / blank / underscore is not modelled')
        if not ch_test(ch, 'isdecimal', str.isdecimal):
            raise ValueError('invalid literal for int() with base 10')
        if isinstance(ch, str):
            terms.append(z3.IntVal(w * _digit_value(ch)))
        else:
            v = z3.IntVal(0)
            for i in sorted(sg.mask('isdecimal', str.isdecimal)):
                v = z3.If(ch == sg.val(i), z3.IntVal(_digit_value(sg.chars[i])), v)
            terms.append(w * v)
    e = z3.simplify(z3.Sum(terms)) if len(terms) > 1 else z3.simplify(terms[0])
    if z3.is_int_value(e):
        return e.as_long()
    return SInt(e)


# ------------------------------------------------------------------------------
# regular expressions: the real pattern text is parsed by CPython's own parser
# (re._parser); a backtracking matcher with sre's priorities runs over the characters
# and forks on every character test.
# ------------------------------------------------------------------------------

_SPECIAL = frozenset('.^$*+?{}[]\\|()')
_MAXREPEAT = _rc.MAXREPEAT


def _uni_word(c):
    return c.isalnum() or c == '_'


def _ascii_word(c):
    return c.isascii() and (c.isalnum() or c == '_')


def _category_pred(cat, flags):
    a = bool(flags & _re.ASCII)
    name = str(cat)
    neg = '_NOT_' in name
    if name.endswith('DIGIT'):
        p = (lambda c: c.isascii() and c.isdigit()) if a else str.isdecimal
    elif name.endswith('SPACE'):
        p = (lambda c: c in ' \t\n\r\f\v') if a else str.isspace
    elif name.endswith('WORD'):
        p = _ascii_word if a else _uni_word
    elif name.endswith('LINEBREAK'):
        p = lambda c: c == '\n'
    else:
        raise HarnessError(f'regex category {name} not modelled')
    return (lambda c: not p(c)) if neg else p


def _icase_pred(lit: str):
    lo, up = lit.lower(), lit.upper()
    return lambda c: c == lit or c.lower() == lo or c.upper() == up


class _Compiled:
    """parse tree + group info; LITERAL codes in the placeholder planes denote symbolic
    characters of the pattern text"""
    _cache: dict = {}

    def __init__(self, text: str, flags: int):
        try:
            t = _rp.parse(text, flags)
        except RecursionError:
            raise
        self.tree = list(t.data)
        self.flags = t.state.flags
        self.groups = t.state.groups - 1
        self.groupindex = dict(t.state.groupdict)
        self.text = text

    @classmethod
    def get(cls, text: str, flags: int) -> '_Compiled':
        if has_sym(text):
            return cls(text, flags)   # placeholders are per path: not cached
        k = (text, flags)
        r = cls._cache.get(k)
        if r is None:
            r = cls._cache[k] = cls(text, flags)
        return r


def _pattern_text(p, flags):
    """-> (regex text as plain/carrier str, flags).  A symbolic character that did NOT go
    through re.escape() is looked at first: when it can be a regex meta character the path
    forks over which one and it is inserted as itself."""
    if isinstance(p, SPattern):
        return p.pattern_text, p.flags | flags
    if isinstance(p, _re.Pattern):
        if not isinstance(p.pattern, str):
            raise HarnessError('bytes patterns are not modelled')
        return p.pattern, p.flags | flags
    if isinstance(p, SStr):
        p = p.carrier()
    if not isinstance(p, str):
        raise TypeError('first argument must be string or compiled pattern')
    if not has_sym(p):
        return p, flags
    st = _st()
    out = []

    def context_sensitive():
        """inside a construct where ordinary characters have a meaning too: after a backslash, inside an open
        [...] or {...}, directly after '(?'"""
        t = ''.join(out)
        n_bs = len(t) - len(t.rstrip('\\'))
        if n_bs % 2 == 1:
            return True
        plain = _re.sub(r'\\.', '', t, flags=_re.S)
        if plain.rfind('[') > plain.rfind(']') or plain.rfind('{') > plain.rfind('}'):
            return True
        return _re.search(r'\(\?[a-zA-Z<!=P-]*$', plain) is not None
    for ch in p:
        o = ord(ch)
        if PUA0 <= o < PUA1:
            e = st.exprs[o - PUA0]
            if context_sensitive() or ch_test(e, 'regex-meta', lambda c: c in _SPECIAL):
                # not escaped and able to change the meaning of the pattern: make it concrete
                sg = st.sigma
                v = symex.ctx().concretize(z3.BV2Int(e), limit=sg.n + 1)
                out.append(sg.chars[v])
                continue
            out.append(chr(PUA1 + (o - PUA0)))
        else:
            out.append(ch)
    return ''.join(out), flags


class SMatch:
    def __init__(self, pattern, string, spans, pos, endpos):
        self.re = pattern
        self.string = string
        self._spans = spans        # list of (start, end) | None, index 0 = whole match
        self.pos, self.endpos = pos, endpos

    def _idx(self, g):
        if isinstance(g, str):
            try:
                return self.re.groupindex[g]
            except KeyError:
                raise IndexError('no such group')
        if not isinstance(g, int) or g < 0 or g >= len(self._spans):
            raise IndexError('no such group')
        return g

    def _get(self, g, default=None):
        sp = self._spans[self._idx(g)]
        if sp is None:
            return default
        return self.string[sp[0]:sp[1]]

    def group(self, *gs):
        if not gs:
            return self._get(0)
        if len(gs) == 1:
            return self._get(gs[0])
        return tuple(self._get(g) for g in gs)

    __getitem__ = lambda self, g: self._get(g)

    def groups(self, default=None):
        return tuple(self._get(i, default) for i in range(1, len(self._spans)))

    def groupdict(self, default=None):
        return {k: self._get(v, default) for k, v in self.re.groupindex.items()}

    def span(self, g=0):
        sp = self._spans[self._idx(g)]
        return sp if sp is not None else (-1, -1)

    def start(self, g=0):
        return self.span(g)[0]

    def end(self, g=0):
        return self.span(g)[1]

    @property
    def lastindex(self):
        best, bi = -1, None
        for i in range(1, len(self._spans)):
            if self._spans[i] is not None and self._spans[i][1] >= best:
                best, bi = self._spans[i][1], i
        return bi

    def __bool__(self):
        return True

    def __repr__(self):
        return f'<SMatch span={self._spans[0]}>'


class _Matcher:
    def __init__(self, comp: _Compiled, chars, pos, endpos):
        self.comp = comp
        self.s = chars
        self.beg = 0
        self.end = endpos
        self.pos0 = pos
        self.groups = [None] * (comp.groups + 1)
        self.steps = 0

    # -- single character tests (fork) --
    def _lit(self, ch, code, flags) -> bool:
        if code >= PUA0:     # symbolic character of the pattern (escaped literal)
            e = _st().exprs[code - (PUA1 if code >= PUA1 else PUA0)]
            if flags & _re.IGNORECASE:
                return _decide(_or([ch_eq(ch, e), ch_eq(_case1(ch, 'lower'), _case1(e, 'lower')),
                                    ch_eq(_case1(ch, 'upper'), _case1(e, 'upper'))]))
            return _decide(ch_eq(ch, e))
        lit = chr(code)
        if flags & _re.IGNORECASE:
            if flags & _re.ASCII and not lit.isascii():
                return ch_is(ch, lit)
            return ch_test(ch, ('ilit', lit, bool(flags & _re.ASCII)), _icase_pred(lit))
        return ch_is(ch, lit)

    def _in(self, ch, items, flags) -> bool:
        neg = False
        preds, syms = [], []
        for op, av in items:
            if op is _rc.NEGATE:
                neg = True
            elif op is _rc.LITERAL:
                if av >= PUA0:
                    syms.append(av)
                elif flags & _re.IGNORECASE:
                    preds.append(_icase_pred(chr(av)))
                else:
                    preds.append((lambda v: lambda c: c == v)(chr(av)))
            elif op is _rc.RANGE:
                lo, hi = av
                if lo >= PUA0 or hi >= PUA0:
                    raise HarnessError('symbolic character as a range bound in a regex class')
                if flags & _re.IGNORECASE:
                    preds.append((lambda a, b: lambda c: any(a <= ord(x) <= b for x in {c, c.lower(), c.upper()} if len(x) == 1))(lo, hi))
                else:
                    preds.append((lambda a, b: lambda c: a <= ord(c) <= b)(lo, hi))
            elif op is _rc.CATEGORY:
                preds.append(_category_pred(av, flags))
            else:
                raise HarnessError(f'regex class item {op} not modelled')
        key = ('in', id(items), flags & (_re.IGNORECASE | _re.ASCII)) if not has_sym(self.comp.text) else \
            ('in', repr(items), flags & (_re.IGNORECASE | _re.ASCII))
        r = ch_test(ch, key, lambda c: any(p(c) for p in preds)) if preds else False
        if not r:
            for code in syms:
                if self._lit(ch, code, flags):
                    r = True
                    break
        return r != neg

    def _word_at(self, i, flags) -> bool:
        if i < self.beg or i >= self.end:
            return False
        a = bool(flags & _re.ASCII)
        return ch_test(self.s[i], ('word', a), _ascii_word if a else _uni_word)

    def _at(self, where, pos, flags) -> bool:
        s, n = self.s, self.end
        if where is _rc.AT_BEGINNING:
            if flags & _re.MULTILINE:
                return pos == self.beg or ch_is(s[pos - 1], '\n')
            return pos == self.beg
        if where is _rc.AT_BEGINNING_STRING:
            return pos == self.beg
        if where is _rc.AT_END:
            if flags & _re.MULTILINE:
                return pos == n or ch_is(s[pos], '\n')
            return pos == n or (pos == n - 1 and ch_is(s[pos], '\n'))
        if where is _rc.AT_END_STRING:
            return pos == n
        if where is _rc.AT_BOUNDARY:
            return self._word_at(pos - 1, flags) != self._word_at(pos, flags)
        if where is _rc.AT_NON_BOUNDARY:
            return self._word_at(pos - 1, flags) == self._word_at(pos, flags)
        raise HarnessError(f'regex anchor {where} not modelled')

    # -- sequence matcher in continuation passing style; alternatives are tried in sre's order --
    def seq(self, nodes, i, pos, flags, k) -> bool:
        self.steps += 1
        if self.steps > 200000:
            raise HarnessError('regex matcher step bound exceeded')
        if i == len(nodes):
            return k(pos)
        op, av = nodes[i]
        s, n = self.s, self.end

        def nxt(p):
            return self.seq(nodes, i + 1, p, flags, k)

        if op is _rc.LITERAL:
            return pos < n and self._lit(s[pos], av, flags) and nxt(pos + 1)
        if op is _rc.NOT_LITERAL:
            return pos < n and not self._lit(s[pos], av, flags) and nxt(pos + 1)
        if op is _rc.ANY:
            return pos < n and (bool(flags & _re.DOTALL) or not ch_is(s[pos], '\n')) and nxt(pos + 1)
        if op is _rc.IN:
            return pos < n and self._in(s[pos], av, flags) and nxt(pos + 1)
        if op is _rc.AT:
            return self._at(av, pos, flags) and nxt(pos)
        if op is _rc.BRANCH:
            for alt in av[1]:
                if self.seq(list(alt), 0, pos, flags, nxt):
                    return True
            return False
        if op is _rc.SUBPATTERN:
            g, add, dele, p = av
            fl = (flags | add) & ~dele
            if g is None:
                return self.seq(list(p), 0, pos, fl, lambda e: self.seq(nodes, i + 1, e, flags, k))
            old = self.groups[g]

            def close(e):
                prev = self.groups[g]
                self.groups[g] = (pos, e)
                if self.seq(nodes, i + 1, e, flags, k):
                    return True
                self.groups[g] = prev
                return False
            if self.seq(list(p), 0, pos, fl, close):
                return True
            self.groups[g] = old
            return False
        if op in (_rc.MAX_REPEAT, _rc.MIN_REPEAT):
            lo, hi, p = av
            body = list(p)
            greedy = op is _rc.MAX_REPEAT

            def rep(count, at, last_at):
                # sre's MAX_UNTIL / MIN_UNTIL: an iteration that consumed nothing is kept but not repeated
                def more():
                    return self.seq(body, 0, at, flags, lambda e: rep(count + 1, e, at))
                if count < lo:
                    return more()
                can_more = count < hi and at != last_at
                if greedy:
                    if can_more and more():
                        return True
                    return nxt(at)
                if nxt(at):
                    return True
                return can_more and more()
            return rep(0, pos, None)
        if op is _rc.POSSESSIVE_REPEAT or op is _rc.ATOMIC_GROUP:
            inner = [(_rc.MAX_REPEAT, av)] if op is _rc.POSSESSIVE_REPEAT else list(av)
            saved = list(self.groups)
            got = []
            if self.seq(inner, 0, pos, flags, lambda e: got.append(e) or True):
                if nxt(got[0]):
                    return True
            self.groups = saved
            return False
        if op in (_rc.ASSERT, _rc.ASSERT_NOT):
            direction, p = av
            body = list(p)
            saved = list(self.groups)
            if direction >= 0:
                ok = self.seq(body, 0, pos, flags, lambda e: True)
            else:
                lo, hi = p.getwidth()
                if lo != hi:
                    raise HarnessError('look-behind requires fixed-width pattern')
                ok = pos - lo >= self.beg and self.seq(body, 0, pos - lo, flags, lambda e: e == pos)
            if op is _rc.ASSERT_NOT:
                self.groups = saved
                return (not ok) and nxt(pos)
            if ok and nxt(pos):
                return True
            self.groups = saved
            return False
        if op is _rc.GROUPREF:
            sp = self.groups[av]
            if sp is None:
                return False
            ln = sp[1] - sp[0]
            if pos + ln > n:
                return False
            for j in range(ln):
                a, b = s[sp[0] + j], s[pos + j]
                if flags & _re.IGNORECASE:
                    c = _or([ch_eq(a, b), ch_eq(_ch_case(a, 'lower'), _ch_case(b, 'lower'))])
                else:
                    c = ch_eq(a, b)
                if not _decide(c):
                    return False
            return nxt(pos + ln)
        if op is _rc.GROUPREF_EXISTS:
            g, yes, no = av
            br = yes if self.groups[g] is not None else no
            return self.seq(list(br) if br is not None else [], 0, pos, flags, nxt)
        raise HarnessError(f'regex node {op} not modelled')

    def run(self, start, full=False, must_advance=False):
        """anchored attempt at `start`; returns spans or None"""
        self.groups = [None] * (self.comp.groups + 1)
        endbox = []

        def done(e):
            if full and e != self.end:
                return False
            if must_advance and e == start:
                return False
            endbox.append(e)
            return True
        if self.seq(self.comp.tree, 0, start, self.comp.flags, done):
            spans = list(self.groups)
            spans[0] = (start, endbox[0])
            return spans
        return None


class SPattern:
    """what the `re` stand-in returns from compile(); also used for one-shot calls"""

    def __init__(self, pattern, flags=0):
        self.pattern_text, fl = _pattern_text(pattern, flags)
        self._comp = _Compiled.get(self.pattern_text, fl)
        self.flags = self._comp.flags
        self.groups = self._comp.groups
        self.groupindex = self._comp.groupindex
        self._real = None

    @property
    def pattern(self):
        return self.pattern_text

    def _plain(self, string):
        """nothing symbolic anywhere: the real engine decides"""
        if isinstance(string, str) and not has_sym(string) and not has_sym(self.pattern_text) and not FORCE_ENGINE:
            if self._real is None:
                self._real = _re.compile(self.pattern_text, self.flags & ~_re.UNICODE if self.flags & _re.ASCII else self.flags)
            return self._real
        return None

    def _prep(self, string, pos, endpos):
        if not _isstr(string):
            raise TypeError('expected string or bytes-like object')
        cs = _chars(string)
        n = len(cs)
        pos = max(0, min(pos, n))
        endpos = n if endpos is None else max(0, min(endpos, n))
        return cs, pos, endpos

    def _src(self, string):
        return lift(string) if has_sym(string) else string

    def match(self, string, pos=0, endpos=None):
        r = self._plain(string)
        if r is not None:
            return r.match(string, pos, *(() if endpos is None else (endpos,)))
        cs, pos, endpos = self._prep(string, pos, endpos)
        sp = _Matcher(self._comp, cs, pos, endpos).run(pos)
        return None if sp is None else SMatch(self, self._src(string), sp, pos, endpos)

    def fullmatch(self, string, pos=0, endpos=None):
        r = self._plain(string)
        if r is not None:
            return r.fullmatch(string, pos, *(() if endpos is None else (endpos,)))
        cs, pos, endpos = self._prep(string, pos, endpos)
        sp = _Matcher(self._comp, cs, pos, endpos).run(pos, full=True)
        return None if sp is None else SMatch(self, self._src(string), sp, pos, endpos)

    def _search(self, cs, pos, endpos, must_advance=False):
        m = _Matcher(self._comp, cs, pos, endpos)
        for st in range(pos, endpos + 1):
            sp = m.run(st, must_advance=must_advance and st == pos)
            if sp is not None:
                return sp
        return None

    def search(self, string, pos=0, endpos=None):
        r = self._plain(string)
        if r is not None:
            return r.search(string, pos, *(() if endpos is None else (endpos,)))
        cs, pos, endpos = self._prep(string, pos, endpos)
        sp = self._search(cs, pos, endpos)
        return None if sp is None else SMatch(self, self._src(string), sp, pos, endpos)

    def _iter_spans(self, cs, pos, endpos, limit=0):
        n, must = 0, False
        while pos <= endpos and (limit == 0 or n < limit):
            sp = self._search(cs, pos, endpos, must)
            if sp is None:
                break
            yield sp
            n += 1
            must = sp[0][1] == sp[0][0]
            pos = sp[0][1]

    def finditer(self, string, pos=0, endpos=None):
        r = self._plain(string)
        if r is not None:
            return r.finditer(string, pos, *(() if endpos is None else (endpos,)))
        cs, pos, endpos = self._prep(string, pos, endpos)
        src = self._src(string)
        return iter([SMatch(self, src, sp, pos, endpos) for sp in self._iter_spans(cs, pos, endpos)])

    def findall(self, string, pos=0, endpos=None):
        r = self._plain(string)
        if r is not None:
            return r.findall(string, pos, *(() if endpos is None else (endpos,)))
        out = []
        for m in self.finditer(string, pos, endpos):
            if self.groups == 0:
                out.append(m.group(0))
            elif self.groups == 1:
                out.append(m._get(1, ''))
            else:
                out.append(m.groups(''))
        return out

    def split(self, string, maxsplit=0):
        r = self._plain(string)
        if r is not None:
            return r.split(string, maxsplit)
        cs, pos, endpos = self._prep(string, 0, None)
        src = self._src(string)
        out, last = [], 0
        for sp in self._iter_spans(cs, 0, endpos, maxsplit):
            out.append(src[last:sp[0][0]])
            for g in sp[1:]:
                out.append(None if g is None else src[g[0]:g[1]])
            last = sp[0][1]
        out.append(src[last:])
        return out

    def subn(self, repl, string, count=0):
        r = self._plain(string)
        if r is not None and (callable(repl) or not has_sym(repl)):
            return r.subn(repl, string, count)
        cs, pos, endpos = self._prep(string, 0, None)
        src = self._src(string)
        out, last, n = [], 0, 0
        for sp in self._iter_spans(cs, 0, endpos, count):
            out.append(src[last:sp[0][0]])
            m = SMatch(self, src, sp, 0, endpos)
            out.append(repl(m) if callable(repl) else _expand(repl, m))
            last = sp[0][1]
            n += 1
        out.append(src[last:])
        return _mk([ch for part in out for ch in _chars(part)]), n

    def sub(self, repl, string, count=0):
        return self.subn(repl, string, count)[0]


def _expand(repl, m: SMatch):
    if not _isstr(repl):
        raise TypeError('replacement must be a string or callable')
    cs = _chars(repl)
    if not any(ch == '\\' for ch in cs if isinstance(ch, str)):
        return repl
    out, i = [], 0
    while i < len(cs):
        ch = cs[i]
        if ch == '\\' and i + 1 < len(cs) and isinstance(cs[i + 1], str):
            nx = cs[i + 1]
            if nx == '\\':
                out.append('\\')
            elif nx.isdigit():
                out.extend(_chars(m._get(int(nx), '')))
            elif nx == 'n':
                out.append('\n')
            elif nx == 't':
                out.append('\t')
            else:
                raise HarnessError(f'replacement escape \\{nx} not modelled')
            i += 2
            continue
        out.append(ch)
        i += 1
    return _mk(out)


FORCE_ENGINE = False    # selftest: run the stand-in even when nothing is symbolic


class ReShim:
    """stand-in for the `re` module inside a module under test"""

    def __init__(self):
        self.calls = 0

    def __getattr__(self, name):
        real = getattr(_re, name)
        if not callable(real) or isinstance(real, type):
            return real             # flags, error, Pattern, Match, ...

        def guarded(*a, **kw):      # a function of `re` without a stand-in: fine on plain arguments only
            if any(has_sym(x) for x in a) or any(has_sym(x) for x in kw.values()):
                raise HarnessError(f're.{name} on a symbolic string is not modelled')
            return real(*a, **kw)
        guarded.__name__ = name
        return guarded

    def compile(self, pattern, flags=0):
        if isinstance(pattern, SPattern):
            return pattern
        return SPattern(pattern, int(flags))

    def escape(self, pattern):
        if isinstance(pattern, str) and not has_sym(pattern):
            return _re.escape(pattern)
        # concrete characters through the real escape(); symbolic ones become literal placeholders
        out = []
        for ch in _chars(pattern):
            ch = _norm(ch)
            out.append(_re.escape(ch) if isinstance(ch, str) else chr(PUA1 + _placeholder(ch)))
        return ''.join(out)

    def _p(self, pattern, flags):
        self.calls += 1
        return self.compile(pattern, flags)

    def match(self, pattern, string, flags=0):
        return self._p(pattern, flags).match(string)

    def fullmatch(self, pattern, string, flags=0):
        return self._p(pattern, flags).fullmatch(string)

    def search(self, pattern, string, flags=0):
        return self._p(pattern, flags).search(string)

    def split(self, pattern, string, maxsplit=0, flags=0):
        return self._p(pattern, flags).split(string, maxsplit)

    def sub(self, pattern, repl, string, count=0, flags=0):
        return self._p(pattern, flags).sub(repl, string, count)

    def subn(self, pattern, repl, string, count=0, flags=0):
        return self._p(pattern, flags).subn(repl, string, count)

    def findall(self, pattern, string, flags=0):
        return self._p(pattern, flags).findall(string)

    def finditer(self, pattern, string, flags=0):
        return self._p(pattern, flags).finditer(string)


class FnmatchShim:
    """stand-in for the `fnmatch` module (POSIX flavour: normcase is the identity).  The real
    fnmatch.translate produces the regex text; a symbolic character of the glob pattern is first
    asked whether it is a glob meta character (then the path forks over which one)."""

    def __init__(self, re_shim: 'ReShim' = None):
        self._re = re_shim or ReShim()

    def __getattr__(self, name):
        raise HarnessError(f'fnmatch.{name} is not modelled')

    def translate(self, pat):
        import fnmatch as _fn
        if isinstance(pat, str) and not has_sym(pat):
            return _fn.translate(pat)
        st = _st()
        out = []
        for ch in _chars(pat):
            ch = _norm(ch)
            if isinstance(ch, str):
                out.append(ch)
            elif ch_test(ch, 'glob-meta', lambda c: c in '*?[]!-'):
                out.append(st.sigma.chars[symex.ctx().concretize(z3.BV2Int(ch), limit=st.sigma.n + 1)])
            else:
                out.append(chr(PUA1 + _placeholder(ch)))
        return _fn.translate(''.join(out))

    def fnmatchcase(self, name, pat):
        if isinstance(name, str) and isinstance(pat, str) and not has_sym(name) and not has_sym(pat):
            import fnmatch as _fn
            return _fn.fnmatchcase(name, pat)
        return self._re.compile(self.translate(pat)).match(name) is not None

    fnmatch = fnmatchcase

    def filter(self, names, pat):
        names = list(names)
        if isinstance(pat, str) and not has_sym(pat) and all(isinstance(n, str) and not has_sym(n) for n in names):
            import fnmatch as _fn
            return _fn.filter(names, pat)
        rx = self._re.compile(self.translate(pat))
        return [n for n in names if rx.match(n) is not None]


# ------------------------------------------------------------------------------
# POSIX path functions (line-by-line transcriptions of posixpath / genericpath that only use
# operations available on both str and SStr, so that they can be compared with the real ones)
# ------------------------------------------------------------------------------

def p_join(a, *p):
    sep = '/'
    path = a
    for b in p:
        if b.startswith(sep):
            path = b
        elif not path or path.endswith(sep):
            path = path + b
        else:
            path = path + sep + b
    return path


def p_split(p):
    i = p.rfind('/') + 1
    head, tail = p[:i], p[i:]
    if head and head != '/' * len(head):
        head = head.rstrip('/')
    return head, tail


def p_splitext(p):
    sep_index = p.rfind('/')
    dot_index = p.rfind('.')
    if dot_index > sep_index:
        filename_index = sep_index + 1
        while filename_index < dot_index:
            if p[filename_index:filename_index + 1] != '.':
                return p[:dot_index], p[dot_index:]
            filename_index += 1
    return p, p[:0]


def p_basename(p):
    return p[p.rfind('/') + 1:]


def p_dirname(p):
    i = p.rfind('/') + 1
    head = p[:i]
    if head and head != '/' * len(head):
        head = head.rstrip('/')
    return head


def p_isabs(p):
    return p.startswith('/')


def p_normpath(path):
    if not path:
        return '.'
    initial_slashes = 1 if path.startswith('/') else 0
    if initial_slashes and path.startswith('//') and not path.startswith('///'):
        initial_slashes = 2
    new_comps = []
    for comp in path.split('/'):
        if not comp or comp == '.':
            continue
        if (comp != '..' or (not initial_slashes and not new_comps) or (new_comps and new_comps[-1] == '..')):
            new_comps.append(comp)
        elif new_comps:
            new_comps.pop()
    out = '/' * initial_slashes
    for i, comp in enumerate(new_comps):
        out = out + ('/' if i else '') + comp
    return out or '.'


def components(path) -> list:
    """'/'-separated components (forks on each symbolic character)"""
    if isinstance(path, str) and not has_sym(path):
        return path.split('/')
    return lift(path).split('/')


# ------------------------------------------------------------------------------
# in-memory file system (POSIX semantics, no symlinks)
# ------------------------------------------------------------------------------

class FsNode:
    __slots__ = ('kind', 'entries', 'size', 'tag')

    def __init__(self, kind, tag=None):
        self.kind = kind            # 'd' | 'f'
        self.entries = []           # [(name: str|SStr, FsNode)] for directories
        self.size = 0
        self.tag = tag


class SymFS:
    def __init__(self):
        self.root = FsNode('d')
        self.log = []               # ('mkdir'|'create'|'open'|'remove', path, ...)

    # ---- set-up (harness) ----
    def mkdirs(self, path: str) -> FsNode:
        cur = self.root
        for comp in path.split('/'):
            if not comp:
                continue
            nxt = None
            for name, node in cur.entries:
                if isinstance(name, str) and name == comp:
                    nxt = node
            if nxt is None:
                nxt = FsNode('d')
                cur.entries.append((comp, nxt))
            cur = nxt
        return cur

    @staticmethod
    def add(dirnode: FsNode, name, kind='f', tag=None) -> FsNode:
        node = FsNode(kind, tag)
        dirnode.entries.append((name, node))
        return node

    # ---- resolution (forks on name comparisons) ----
    def _walk(self, path, create_dirs=False, want_parent=False):
        """-> (stack of nodes | None, last component when want_parent).  None: some prefix is
        missing or is a file."""
        if not _decide(lift(path).startswith('/')):
            raise HarnessError('relative path reached the file system model (no cwd is modelled)')
        comps = components(path)
        last = None
        if want_parent:
            last = comps[-1]
            comps = comps[:-1]
        stack = [self.root]
        for comp in comps:
            cur = stack[-1]
            if cur.kind != 'd':
                return None, last
            if len(comp) == 0 or _decide(eq(comp, '.')):
                continue
            if _decide(eq(comp, '..')):
                if len(stack) > 1:
                    stack.pop()
                continue
            nxt = self._child(cur, comp)
            if nxt is None:
                if not create_dirs:
                    return None, last
                nxt = FsNode('d')
                cur.entries.append((comp, nxt))
                self.log.append(('mkdir', comp))
            stack.append(nxt)
        return stack, last

    @staticmethod
    def _child(cur: FsNode, comp):
        for name, node in cur.entries:
            if _decide(eq(name, comp)):
                return node
        return None

    def lookup(self, path):
        stack, _ = self._walk(path)
        return None if stack is None else stack[-1]

    def exists(self, path) -> bool:
        return self.lookup(path) is not None

    lexists = exists

    def isdir(self, path) -> bool:
        n = self.lookup(path)
        return n is not None and n.kind == 'd'

    def isfile(self, path) -> bool:
        n = self.lookup(path)
        return n is not None and n.kind == 'f'

    def getsize(self, path) -> int:
        n = self.lookup(path)
        if n is None:
            raise FileNotFoundError(2, 'No such file or directory')
        return n.size

    def listdir(self, path):
        n = self.lookup(path)
        if n is None:
            raise FileNotFoundError(2, 'No such file or directory')
        if n.kind != 'd':
            raise NotADirectoryError(20, 'Not a directory')
        return [name for name, _ in n.entries]

    def makedirs(self, path, mode=0o777, exist_ok=False):
        before = len(self.log)
        stack, _ = self._walk(path, create_dirs=True)
        if stack is None:
            raise NotADirectoryError(20, 'Not a directory')
        if stack[-1].kind != 'd':
            raise FileExistsError(17, 'File exists')
        if len(self.log) == before and not exist_ok:
            raise FileExistsError(17, 'File exists')

    def open_append(self, path, tag=None):
        """open(path, 'ab'): -> (node, created)"""
        stack, last = self._walk(path, want_parent=True)
        if stack is None:
            raise FileNotFoundError(2, 'No such file or directory')
        cur = stack[-1]
        if cur.kind != 'd':
            raise NotADirectoryError(20, 'Not a directory')
        if len(last) == 0 or _decide(eq(last, '.')) or _decide(eq(last, '..')):
            raise IsADirectoryError(21, 'Is a directory')
        node = self._child(cur, last)
        if node is not None:
            if node.kind == 'd':
                raise IsADirectoryError(21, 'Is a directory')
            self.log.append(('open', path, node))
            return node, False
        node = FsNode('f', tag)
        cur.entries.append((last, node))
        self.log.append(('create', path, node))
        return node, True

    def remove(self, path):
        stack, last = self._walk(path, want_parent=True)
        if stack is None or stack[-1].kind != 'd':
            raise FileNotFoundError(2, 'No such file or directory')
        cur = stack[-1]
        for i, (name, node) in enumerate(cur.entries):
            if _decide(eq(name, last)):
                if node.kind == 'd':
                    raise IsADirectoryError(21, 'Is a directory')
                del cur.entries[i]
                self.log.append(('remove', path, node))
                return
        raise FileNotFoundError(2, 'No such file or directory')

    # ---- non-forking existence formula (for oracles) ----
    def exists_expr(self, comps, stack=None):
        """bool | z3 Bool: the path made of the given components (already separated, no '/'
        inside) resolves to something"""
        stack = stack or [self.root]
        if not comps:
            return True
        cur = stack[-1]
        if cur.kind != 'd':
            return False
        comp, rest = comps[0], comps[1:]
        if len(comp) == 0:
            return self.exists_expr(rest, stack)
        is_dot, is_dd = eq(comp, '.'), eq(comp, '..')
        if is_dot is True:
            return self.exists_expr(rest, stack)
        if is_dd is True:
            return self.exists_expr(rest, stack[:-1] if len(stack) > 1 else stack)
        alts = []
        for name, node in cur.entries:
            same_name = eq(name, comp)
            if same_name is False:
                continue
            alts.append(_and([same_name, self.exists_expr(rest, stack + [node])]))
        child = _or(alts)
        if is_dot is False and is_dd is False:
            return child if isinstance(child, bool) else z3.simplify(child)
        up = self.exists_expr(rest, stack[:-1] if len(stack) > 1 else stack)
        same = self.exists_expr(rest, stack)
        return z3.simplify(z3.If(_z(is_dot), _z(same), z3.If(_z(is_dd), _z(up), _z(child))))


class PathShim:
    """stand-in for os.path (posixpath) bound to a SymFS"""

    def __init__(self, fs: SymFS):
        self._fs = fs
        self.sep, self.altsep, self.curdir, self.pardir, self.extsep = '/', None, '.', '..', '.'

    def __getattr__(self, name):
        raise HarnessError(f'os.path.{name} is not modelled')

    @staticmethod
    def _a(x):
        if not _isstr(x):
            raise TypeError(f'expected str, bytes or os.PathLike object, not {type(x).__name__}')
        return lift(x) if has_sym(x) else x

    def join(self, a, *p):
        return p_join(self._a(a), *[self._a(x) for x in p])

    def split(self, p):
        return p_split(self._a(p))

    def splitext(self, p):
        return p_splitext(self._a(p))

    def basename(self, p):
        return p_basename(self._a(p))

    def dirname(self, p):
        return p_dirname(self._a(p))

    def normpath(self, p):
        return p_normpath(self._a(p))

    def isabs(self, p):
        return _decide(self._a(p).startswith('/'))

    def abspath(self, p):
        p = self._a(p)
        if not _decide(p.startswith('/')):
            raise HarnessError('abspath of a relative path (no cwd is modelled)')
        return p_normpath(p)

    realpath = abspath

    def exists(self, p):
        return self._fs.exists(self._a(p))

    lexists = exists

    def isdir(self, p):
        return self._fs.isdir(self._a(p))

    def isfile(self, p):
        return self._fs.isfile(self._a(p))

    def getsize(self, p):
        return self._fs.getsize(self._a(p))


class OsShim:
    """stand-in for the `os` module inside a module under test (POSIX flavour)"""

    def __init__(self, fs: SymFS):
        self._fs = fs
        self.path = PathShim(fs)
        self.sep, self.altsep, self.curdir, self.pardir, self.extsep, self.linesep, self.name = '/', None, '.', '..', '.', '\n', 'posix'

    def __getattr__(self, name):
        raise HarnessError(f'os.{name} is not modelled')

    def fspath(self, p):
        if not _isstr(p):
            raise TypeError('expected str, bytes or os.PathLike object')
        return p

    def listdir(self, p='.'):
        return list(self._fs.listdir(PathShim._a(p)))

    def makedirs(self, p, mode=0o777, exist_ok=False):
        return self._fs.makedirs(PathShim._a(p), mode, exist_ok)

    def mkdir(self, p, mode=0o777):
        return self._fs.makedirs(PathShim._a(p), mode, False)

    def remove(self, p):
        return self._fs.remove(PathShim._a(p))

    unlink = remove


# ------------------------------------------------------------------------------
# unicodedata
# ------------------------------------------------------------------------------

_UD_FORMS = ('NFC', 'NFD', 'NFKC', 'NFKD')
_UD_SECOND = None


def _ud_second_set() -> frozenset:
    """characters that can be absorbed into a preceding character by canonical composition: the second
    member of a two-character canonical decomposition of any code point, and the Hangul V / T jamo.
    (A superset is harmless: it only makes more characters 'active'.)  Read off CPython's unicodedata once."""
    global _UD_SECOND
    if _UD_SECOND is None:
        out = set()
        dec = unicodedata.decomposition
        for cp in range(0x110000):
            d = dec(chr(cp))
            if d and d[0] != '<':
                parts = d.split()
                if len(parts) == 2:
                    out.add(chr(int(parts[1], 16)))
        out.update(chr(cp) for cp in range(0x1161, 0x1176))
        out.update(chr(cp) for cp in range(0x11A8, 0x11C3))
        _UD_SECOND = frozenset(out)
    return _UD_SECOND


def _ud_stays(form: str, c: str) -> bool:
    """normalisation to `form` leaves this character alone wherever it stands, except that it may take up
    combining characters that follow it: unchanged by `form`, a starter, never absorbed by a predecessor"""
    return (unicodedata.normalize(form, c) == c and unicodedata.combining(c) == 0 and c not in _ud_second_set()
            and not 0x1100 <= ord(c) <= 0x11FF)


def _ud_map1(form: str, c: str, alphabet):
    """a character that `form` replaces by exactly one other character r of the alphabet, r being of the
    `stays` kind: since c and r are equivalent, normalize(A + c + B) == normalize(A + r + B) for all A, B, so c can be
    mapped to r symbolically (no fork)"""
    if unicodedata.combining(c) != 0 or c in _ud_second_set() or 0x1100 <= ord(c) <= 0x11FF:
        return None
    r = unicodedata.normalize(form, c)
    if len(r) == 1 and r != c and r in alphabet and _ud_stays(form, r):
        return r
    return None


def _ud_interacts(form: str, c: str, run: str) -> bool:
    return unicodedata.normalize(form, c + run) != c + unicodedata.normalize(form, run)


def _normalize_core(form, items, alphabet, ask, concretize, remap):
    """items: plain characters and opaque (symbolic) ones.  ask(item, key, pred) decides a predicate on an
    opaque item, concretize(item) makes it a plain character, remap(item, table) applies a character -> character
    table to it without deciding anything.
    An opaque character is (1) mapped through the one-to-one replacements of `form` (fullwidth solidus -> '/', one dot
    leader -> '.', ...), or (2) made concrete when normalisation could expand, move or merge it (combining marks,
    ligatures, decomposing letters, ...), or when (3) it would combine with the concrete run that follows it.  What
    stays opaque is a starter that `form` leaves alone, that cannot be absorbed by its predecessor and does not
    combine with its successors: the result is then the concatenation of CPython's normalisation of the concrete
    runs and the opaque characters."""
    table = {c: r for c in alphabet for r in [_ud_map1(form, c, alphabet)] if r is not None}
    akey = ''.join(alphabet)
    cs = list(items)
    for i, ch in enumerate(cs):
        if isinstance(ch, str):
            continue
        if ask(ch, ('ud-active', form, akey), lambda c: not _ud_stays(form, c) and c not in table):
            cs[i] = concretize(ch)
        elif table:
            cs[i] = remap(ch, table)
    again = True
    while again:
        again = False
        for i, ch in enumerate(cs):
            if isinstance(ch, str):
                continue
            j = i + 1
            while j < len(cs) and isinstance(cs[j], str):
                j += 1
            run = ''.join(cs[i + 1:j])
            if run and ask(ch, ('ud-int', form, run), lambda c, run=run: _ud_interacts(form, c, run)):
                cs[i] = concretize(ch)
                again = True
                break
    out, run = [], []
    for ch in cs:
        if isinstance(ch, str):
            run.append(ch)
        else:
            out.extend(unicodedata.normalize(form, ''.join(run)))
            run = []
            out.append(ch)
    out.extend(unicodedata.normalize(form, ''.join(run)))
    return out


class UnicodedataShim:
    """stand-in for the `unicodedata` module.  normalize / is_normalized and the per-character look-ups work on
    symbolic strings (tables are CPython's own, evaluated for every member of Σ); everything else passes plain
    arguments through and raises a HarnessError naming the function for symbolic ones."""
    _PER_CHAR = ('category', 'combining', 'bidirectional', 'east_asian_width', 'mirrored', 'decomposition', 'name',
                 'decimal', 'digit', 'numeric')

    def __getattr__(self, name):
        real = getattr(unicodedata, name)
        if not callable(real):
            return real

        def passthrough(*a, **kw):
            if any(has_sym(x) for x in a) or any(has_sym(x) for x in kw.values()):
                if name in self._PER_CHAR:
                    return self._per_char(name, *a, **kw)
                raise HarnessError(f'unicodedata.{name} on a symbolic string is not modelled')
            return real(*a, **kw)
        passthrough.__name__ = name
        return passthrough

    @staticmethod
    def _concretize(ch):
        sg = _st().sigma
        return sg.chars[symex.ctx().concretize(z3.BV2Int(ch), limit=sg.n + 1)]

    def normalize(self, form, unistr):
        if isinstance(unistr, str) and not has_sym(unistr):
            return unicodedata.normalize(form, unistr)
        if not _isstr(unistr):
            raise TypeError(f'normalize() argument 2 must be str, not {type(unistr).__name__}')
        if has_sym(form):
            raise HarnessError('unicodedata.normalize with a symbolic form argument is not modelled')
        if form not in _UD_FORMS:
            raise ValueError('invalid normalization form')
        items = [_norm(ch) for ch in _chars(unistr)]
        return _mk(_normalize_core(form, items, _st().sigma.chars, ch_test, self._concretize, self._remap))

    @staticmethod
    def _remap(ch, table):
        sg = _st().sigma
        r = ch
        for c, t in table.items():
            r = z3.If(ch == sg.val(sg.index[c]), sg.val(sg.index[t]), r)
        return _norm(z3.simplify(r))

    def is_normalized(self, form, unistr):
        if isinstance(unistr, str) and not has_sym(unistr):
            return unicodedata.is_normalized(form, unistr)
        return _decide(eq(self.normalize(form, unistr), unistr))

    def _per_char(self, name, chr_arg, *default):
        """a per-character look-up on one symbolic character: fork over the distinct results within Σ"""
        real = getattr(unicodedata, name)
        cs = _chars(chr_arg)
        if len(cs) != 1:
            raise TypeError(f'{name}() argument must be a unicode character, not str')
        ch = _norm(cs[0])
        if isinstance(ch, str):
            return real(ch, *default)
        missing = object()

        def value(c):
            try:
                return real(c)
            except ValueError:
                return missing
        sg = _st().sigma
        seen = []
        for c in sg.chars:
            v = value(c)
            if v in seen:
                continue
            seen.append(v)
            if ch_test(ch, ('ud', name, repr(v) if v is not missing else 'missing'), lambda x, v=v: value(x) == v if v is not missing else value(x) is missing):
                if v is missing:
                    if default:
                        return default[0]
                    raise ValueError(f'not a {name} character' if name != 'name' else 'no such name')
                return v
        raise HarnessError('character outside the alphabet')


def replace_by_identity(mod_dict: dict, real_module, shim, setter, path_attr=None):
    """inside the globals of a module under test, replace the real stdlib module — and every function the module
    imported from it by name (`from re import split`) — by the stand-in.  setter(name, value) records and sets."""
    for name, val in list(mod_dict.items()):
        if val is real_module:
            setter(name, shim)
        elif path_attr is not None and val is getattr(real_module, path_attr, None):
            setter(name, getattr(shim, path_attr))
        elif callable(val) and not isinstance(val, type):
            for holder_real, holder_shim in ((real_module, shim),) + (((getattr(real_module, path_attr), getattr(shim, path_attr)),) if path_attr else ()):
                fname = getattr(val, '__name__', None)
                if fname and getattr(holder_real, fname, None) is val:
                    try:
                        repl = getattr(holder_shim, fname)
                    except (HarnessError, AttributeError):
                        def repl(*a, _n=f'{getattr(holder_real, "__name__", "?")}.{fname}', **kw):
                            raise HarnessError(f'{_n} is not modelled')
                    setter(name, repl)
                    break


# ------------------------------------------------------------------------------
# self test against CPython (translator validation; no symbolic context needed)
# ------------------------------------------------------------------------------

SELFTEST_PATTERNS = [
    (r'[\\/]+', 0), (r'[a-zA-Z]{1}:', 0), (r'a\.b \((\d+)\)', 0), (r' \((\d+)\)', 0), (r'(a|ab)(c|bcd)?', 0),
    (r'a*?b', 0), (r'(?i)a[b-c]', 0), (r'\bab\b', 0), (r'^a|b$', 0), (r'(?<![^\W_])a(?![^\W_])', 0),
    (r'(a)|(b)', 0), (r'x*', 0), (r'(a+)+b', 0), (r'(a*)*b', 0), (r'(a|)+c', 0), (r'(?:a|b)*?c', 0), (r'a{1,2}b?', 0), (r'[^a.]', 0), (r'(?:(?<=a)|^)b', _re.IGNORECASE), (r'(a)\1', 0),
]


class _Opaque:
    def __init__(self, ch):
        self.ch = ch


def _selftest_normalize(alphabet='ae.\u0301\u0327\u00e9\uff0f\u2024\ufb01/\u1100\u1161\u212b\u00c5\u0338=', maxlen=3) -> int:
    """the segment rule of _normalize_core against unicodedata.normalize: every character is handed in as an opaque
    one (answers come from the real character), so whatever the rule leaves opaque is checked to be left alone by
    CPython in that context"""
    import itertools
    n = 0
    for k in range(maxlen + 1):
        for t in itertools.product(alphabet, repeat=k):
            s = ''.join(t)
            for form in _UD_FORMS:
                got = _normalize_core(form, [_Opaque(c) for c in s], alphabet, lambda it, key, pred: bool(pred(it.ch)), lambda it: it.ch,
                                      lambda it, table: _Opaque(table.get(it.ch, it.ch)))
                got = ''.join(x.ch if isinstance(x, _Opaque) else x for x in got)
                if got != unicodedata.normalize(form, s):
                    raise HarnessError(f'unicodedata stand-in differs: normalize({form!r}, {s!r}): real '
                                       f'{unicodedata.normalize(form, s)!r} mine {got!r}')
                n += 1
    return n


def selftest(alphabet='ab.c/\\( 1)A:', maxlen=3) -> list:
    """the regex stand-in (forced, on plain strings) and the path functions against the real
    `re` / `posixpath` on every string up to maxlen over a small alphabet.  Raises on the first
    disagreement; returns notes."""
    import itertools
    import posixpath
    global FORCE_ENGINE
    strings = [''.join(t) for n in range(maxlen + 1) for t in itertools.product(alphabet, repeat=n)]
    shim = ReShim()
    n = 0

    def mview(m):
        return None if m is None else (m.span(), tuple(m.span(i) for i in range(1, m.re.groups + 1)), m.groups())
    FORCE_ENGINE = True
    try:
        for pat, fl in SELFTEST_PATTERNS:
            real = _re.compile(pat, fl)
            mine = shim.compile(pat, fl)
            for s in strings:
                for name in ('match', 'search', 'fullmatch'):
                    a, b = mview(getattr(real, name)(s)), mview(getattr(mine, name)(s))
                    if a != b:
                        raise HarnessError(f're stand-in differs: {name}({pat!r}, {s!r}): real {a} mine {b}')
                for name, args in (('split', ()), ('split', (1,)), ('findall', ())):
                    a, b = getattr(real, name)(s, *args), getattr(mine, name)(s, *args)
                    if a != b:
                        raise HarnessError(f're stand-in differs: {name}({pat!r}, {s!r}): real {a} mine {b}')
                a, b = real.sub('<>', s), mine.sub('<>', s)
                if a != b:
                    raise HarnessError(f're stand-in differs: sub({pat!r}, {s!r}): real {a!r} mine {b!r}')
                n += 7
    finally:
        FORCE_ENGINE = False
    for s in strings:
        for mine_f, real_f in ((p_split, posixpath.split), (p_splitext, posixpath.splitext), (p_basename, posixpath.basename),
                               (p_dirname, posixpath.dirname), (p_normpath, posixpath.normpath)):
            if mine_f(s) != real_f(s):
                raise HarnessError(f'path stand-in differs: {real_f.__name__}({s!r}): real {real_f(s)!r} mine {mine_f(s)!r}')
            n += 1
    short = [s for s in strings if len(s) <= 2]
    for a in short:
        for b in short:
            if p_join(a, b) != posixpath.join(a, b) or p_join('/d', a, b) != posixpath.join('/d', a, b):
                raise HarnessError(f'path stand-in differs: join({a!r}, {b!r})')
            n += 2
    for s in ['0', '12', '007', '١٢']:
        if sym_int(s) != int(s):
            raise HarnessError('int stand-in differs')
    n += _selftest_normalize()
    return [f'sstr selftest: {n} comparisons of the re / posixpath stand-ins with CPython agree']
