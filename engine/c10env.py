"""c10env: transports, connect attempts, observers and reference predicates for C10 (connection life cycle / registry).

Built on engine/c02env.py (byte-accurate FakeReader) and engine/codec.py (byte proxies).  New here:

* Wire: a reader/writer pair that behaves like one asyncio stream transport: close() -> connection_lost() one loop
  iteration later -> reader sees EOF, wait_closed() returns; reset -> reader exception, drain()/wait_closed() raise;
  scripted faults: drain raises / never returns, wait_closed never returns / raises.
* Streams: asyncio.open_connection -> scripted attempts (ok / refused / never answers, optional delay), each attempt
  knows the DataConnection that makes it (found on the awaiting frame) and whether it is still pending;
  asyncio.start_server -> c02env.FakeServer.
* TicketMap: stand-in for Network._expected_connection_futures while tickets are symbolic words (lookup compares
  keys instead of hashing; a plain dict in concrete replay).
* Observer: listens on the REAL EventBus, keeps per connection the reported states, deliveries and transport writes
  with a global sequence number, and evaluates the C10 clauses with its own notion of "open" (what the fake
  transports say), not with Connection.state.
* reference encoders for the handful of messages the scenarios use (written from the protocol description,
  independent of aioslsk.protocol; compared with the real serializers in the prelude of props/c10.py).
"""
from __future__ import annotations

import asyncio
import contextlib
import sys

import z3

from engine import symex, codec, c02env
from engine.codec import SWord
from engine.c02env import FakeReader, FakeServer

from aioslsk.exceptions import ConnectionReadError
from aioslsk.network.connection import (CloseReason, DataConnection, PeerConnection, ServerConnection, ListeningConnection,
                                        ConnectionState)

RANK = {ConnectionState.UNINITIALIZED: 0, ConnectionState.CONNECTING: 1, ConnectionState.CONNECTED: 2,
        ConnectionState.CLOSING: 3, ConnectionState.CLOSED: 4}


# --------------------------------------------------------------------------------------------------
# transports
# --------------------------------------------------------------------------------------------------

class Clock:
    """global sequence numbers: every observation (state report, delivery, transport write) gets one"""

    def __init__(self):
        self.n = 0

    def tick(self):
        self.n += 1
        return self.n


class Wire:
    """one TCP connection as seen from our side"""

    def __init__(self, streams, peername, sockname, tag):
        self.streams = streams
        self.tag = tag
        self.reader = FakeReader(streams.symbolic)
        self.writer = WireWriter(self, peername, sockname)
        self.owner = None            # the DataConnection using this transport
        self.lost = False            # connection_lost() delivered
        self.lost_exc = None

    # ---- what the remote side / the network does -----------------------------------------------------
    def remote_eof(self):
        """the peer closes its side: EOF for our reader (our writer stays usable until we close)"""
        self.reader.feed_eof()

    def remote_reset(self):
        """RST / network failure: connection_lost(exc)"""
        self._lost(ConnectionResetError('Connection reset by peer'))

    def feed(self, data):
        if self.lost or self.writer.closed:
            return False             # a closed transport does not deliver data any more
        self.reader.feed_data(data)
        return True

    # ---- transport internals --------------------------------------------------------------------------
    def _lost(self, exc=None):
        if self.lost:
            return
        self.lost = True
        self.lost_exc = exc
        self.writer.closed = True
        if exc is None:
            self.reader.feed_eof()
        else:
            self.reader.set_exception(exc)
        w, self.writer._close_waiter_done = self.writer._close_waiter, True
        if w is not None and not w.done():
            if exc is None:
                w.set_result(None)
            else:
                w.set_exception(exc)
        for d in self.writer._drain_waiters:
            if not d.done():
                d.set_exception(ConnectionResetError('Connection lost'))

    @property
    def open(self):
        """our side has an open transport (neither closed by us nor lost)"""
        return not self.writer.closed and not self.lost


class WireWriter:
    """asyncio.StreamWriter stand-in.  drain_mode: 'ok' | 'reset' (the write fails) | 'slow' / 'slow_reset' (returns / fails after drain_delay s) | 'hang' (back pressure that never
    clears).  close_mode: 'ok' (connection_lost on the next loop iteration) | 'hang' (the transport never reports the
    loss: unsent data) | 'error' (connection_lost(exc): wait_closed raises)."""

    def __init__(self, wire, peername, sockname):
        self.wire = wire
        self.info = {'peername': peername, 'sockname': sockname}
        self.written: list = []       # (seq, data)
        self.dropped: list = []       # (seq, data) written after close(): silently discarded by asyncio
        self.closed = False
        self.close_calls = 0
        self.drain_mode = 'ok'
        self.drain_delay = 1.0
        self.close_mode = 'ok'
        self._close_waiter = None
        self._close_waiter_done = False
        self._drain_waiters: list = []

    def get_extra_info(self, name, default=None):
        return self.info.get(name, default)

    def write(self, data):
        seq = self.wire.streams.clock.tick()
        if self.closed:
            self.dropped.append((seq, data))
            return
        self.written.append((seq, data))

    async def drain(self):
        exc = self.wire.reader.exception()
        if exc is not None:
            raise exc
        if self.closed:
            await asyncio.sleep(0)
        if self.wire.lost:
            raise ConnectionResetError('Connection lost')
        if self.drain_mode == 'reset':
            self.wire._lost(ConnectionResetError('Connection reset by peer'))
            raise ConnectionResetError('Connection lost')
        if self.drain_mode == 'hang':
            f = asyncio.get_running_loop().create_future()
            self._drain_waiters.append(f)
            await f
        if self.drain_mode in ('slow', 'slow_reset'):
            # back pressure that clears (or a write that fails) drain_delay seconds later
            loop = asyncio.get_running_loop()
            f, mode = loop.create_future(), self.drain_mode
            self._drain_waiters.append(f)

            def later():
                if f.done():
                    return
                if mode == 'slow':
                    f.set_result(None)
                else:
                    self.wire._lost(ConnectionResetError('Connection reset by peer'))
            loop.call_later(self.drain_delay, later)
            await f

    def is_closing(self):
        return self.closed

    def close(self):
        self.close_calls += 1
        if self.closed:
            return
        self.closed = True
        if self.close_mode == 'hang':
            return
        exc = ConnectionResetError('Connection reset by peer') if self.close_mode == 'error' else None
        asyncio.get_running_loop().call_soon(self.wire._lost, exc)

    async def wait_closed(self):
        if self.wire.lost:
            if self.wire.lost_exc is not None:
                raise self.wire.lost_exc
            return
        if self._close_waiter is None:
            self._close_waiter = asyncio.get_running_loop().create_future()
        await asyncio.shield(self._close_waiter)


def check_address(host, port):
    """what the real asyncio.open_connection(host, port) does with its ARGUMENTS for an IP-literal host (no getaddrinfo):
    a port outside 0..65535 -> OverflowError('connect(): port must be 0-65535.') from sock.connect(); a host with an
    embedded NUL -> ValueError.  Neither is an OSError.  The port is whatever value
    flowed into the call - a python int or the symbolic 32-bit word read from ConnectToPeer.Response / GetPeerAddress.Response
    by the real codec (then the range test forks)."""
    p = port.v if isinstance(port, codec.Box) else port
    if isinstance(host, str) and '\0' in host:
        raise ValueError('embedded null character')
    if p is None:
        return
    if isinstance(p, (SWord, symex.SInt)):
        bad = bool(p > 65535) or bool(p < 0)
    elif isinstance(p, int):
        bad = not 0 <= p <= 65535
    else:
        raise symex.HarnessError(f'open_connection fake: port of type {type(p).__name__} is not modelled')
    if bad:
        raise OverflowError('connect(): port must be 0-65535.')


class Attempt:
    """one asyncio.open_connection call"""

    def __init__(self, owner, host, port, outcome, delay):
        self.owner, self.host, self.port = owner, host, port
        self.outcome, self.delay = outcome, delay
        self.status = 'pending'       # pending | open | refused | cancelled | rejected (bad arguments)
        self.wire = None
        self.gate = None


class Streams:
    """replaces asyncio.open_connection / asyncio.start_server for the duration of a path"""

    def __init__(self, symbolic):
        self.symbolic = symbolic
        self.clock = Clock()
        self.attempts: list = []
        self.wires: list = []
        self.servers: dict = {}
        self.script: list = []        # outcomes of the next open_connection calls: (outcome, delay)
        self.default = ('ok', 0)
        self.on_open = None           # hook(wire) for transports handed out by open_connection

    def wire(self, peername, sockname, tag):
        w = Wire(self, peername, sockname, tag)
        self.wires.append(w)
        return w

    async def open_connection(self, host=None, port=None, **kw):
        owner = None
        f = sys._getframe(1)
        while f is not None:
            s = f.f_locals.get('self')
            if isinstance(s, DataConnection) and f.f_code.co_name == 'connect':
                owner = s
                break
            f = f.f_back
        outcome, delay = self.script.pop(0) if self.script else self.default
        att = Attempt(owner, host, port, outcome, delay)
        self.attempts.append(att)
        try:
            check_address(host, port)
        except (OverflowError, ValueError):
            # the real call raises these from sock.connect() / the address conversion before any I/O and without
            # yielding to the loop (validated in the prelude of props/c10.py)
            att.status = 'rejected'
            if symex._CTX is not None:
                symex._CTX.reach('connect_argument_rejected')
            raise
        loop = asyncio.get_running_loop()
        att.gate = loop.create_future()

        def answer():
            if att.gate.done():
                return
            if outcome == 'ok':
                att.gate.set_result(None)
            elif outcome == 'refused':
                att.gate.set_exception(ConnectionRefusedError('[Errno 111] Connect call failed'))
        if outcome != 'hang':
            if delay:
                loop.call_later(delay, answer)
            else:
                loop.call_soon(answer)
        try:
            await att.gate
        except asyncio.CancelledError:
            att.status = 'cancelled'
            raise
        except ConnectionRefusedError:
            att.status = 'refused'
            raise
        w = self.wire((host, port), ('10.0.0.1', 50000 + len(self.wires)), f'out{len(self.attempts)}')
        w.owner = owner
        att.wire, att.status = w, 'open'
        if self.on_open is not None:
            self.on_open(w)
        return w.reader, w.writer

    async def start_server(self, cb, host=None, port=None, **kw):
        s = FakeServer(cb, host, port)
        self.servers[port] = s
        return s


@contextlib.contextmanager
def streams(symbolic):
    s = Streams(symbolic)
    old = asyncio.open_connection, asyncio.start_server
    asyncio.open_connection, asyncio.start_server = s.open_connection, s.start_server
    try:
        yield s
    finally:
        asyncio.open_connection, asyncio.start_server = old


# --------------------------------------------------------------------------------------------------
# symbolic tickets
# --------------------------------------------------------------------------------------------------

class TicketMap:
    """Network._expected_connection_futures while tickets are symbolic: same observable behaviour as the dict for the
    operations network.py applies ([k] = v, [k], pop(k)); key comparison is `==` on the ticket values (forks when
    symbolic) instead of hashing."""

    def __init__(self):
        self.pairs: list = []

    def _find(self, k):
        for i, (kk, _) in enumerate(self.pairs):
            if kk is k or bool(kk == k):
                return i
        return None

    def __setitem__(self, k, v):
        i = self._find(k)
        if i is None:
            self.pairs.append((k, v))
        else:
            self.pairs[i] = (k, v)

    def __getitem__(self, k):
        i = self._find(k)
        if i is None:
            raise KeyError('ticket')
        return self.pairs[i][1]

    def __contains__(self, k):
        return self._find(k) is not None

    def pop(self, k, *default):
        i = self._find(k)
        if i is None:
            if default:
                return default[0]
            raise KeyError('ticket')
        return self.pairs.pop(i)[1]

    def get(self, k, default=None):
        i = self._find(k)
        return default if i is None else self.pairs[i][1]

    def __len__(self):
        return len(self.pairs)

    def __iter__(self):
        return iter([k for k, _ in self.pairs])

    def values(self):
        return [v for _, v in self.pairs]

    def items(self):
        return list(self.pairs)


def ticket_source(c, g, tickets):
    """stand-in for utils.ticket_generator(): every ticket handed out is a fresh 32-bit value (symbolic while exploring,
    the model's value in replay), pairwise distinct like the values of one generator cycle"""
    def gen():
        i = 0
        while True:
            t = g.word(f'ticket{i}', 32)
            for o in tickets:
                r = (o != t)
                if isinstance(r, bool):
                    if not r:
                        raise symex.PathAbort('model tickets collide')
                else:
                    c.assume(r)
            tickets.append(t)
            i += 1
            yield t
    return gen()


# --------------------------------------------------------------------------------------------------
# observer: the C10 clauses
# --------------------------------------------------------------------------------------------------

class Observer:
    def __init__(self, net, st, bus):
        from aioslsk.events import ConnectionStateChangedEvent, MessageReceivedEvent, PeerInitializedEvent
        self.net, self.st = net, st
        self.reports: dict = {}       # id(conn) -> [(seq, state)]
        self.conns: dict = {}         # id(conn) -> conn   (every connection that was ever seen)
        self.delivered: dict = {}     # id(conn) -> [(seq, message)]
        self.inits: list = []
        self.listening: dict = {}
        self.violations: list = []    # (label, tag, info)
        self.slow_listener = False    # the message listener suspends once (a manager awaiting something)
        self.slow_states = False      # the state listener suspends once
        self.init_mode = 'instant'    # what the PeerInitializedEvent listener does for accepted connections
        self.on_message_hook = None

        async def on_state(ev):
            self.state_report(ev.connection, ev.state)
            if self.slow_states:
                await asyncio.sleep(0)       # a manager's state listener that awaits something

        async def on_msg(ev):
            self.message(ev.connection, ev.message)
            if self.on_message_hook is not None:
                self.on_message_hook(ev)
            if self.slow_listener:
                await asyncio.sleep(0)

        async def on_init(ev):
            """PeerInitializedEvent listener (a manager): on_peer_accepted awaits it before accept() decides about CONNECTED"""
            self.inits.append(ev.connection)
            mode = self.init_mode
            if not ev.connection.incoming or mode == 'instant':
                return
            if mode == 'suspend1':
                await asyncio.sleep(0)
            elif mode == 'suspend3':
                for _ in range(3):
                    await asyncio.sleep(0)
            elif mode == 'suspend_long':
                await asyncio.sleep(2)            # idle moments pass: scripted remote events happen meanwhile
            elif mode == 'disconnects':
                await ev.connection.disconnect(CloseReason.REQUESTED)      # a manager rejecting the peer
            elif mode == 'reads':
                try:                              # what TransferManager._on_peer_initialized does for F connections
                    await ev.connection.receive_transfer_ticket()
                except ConnectionReadError:
                    pass
            else:
                raise symex.HarnessError(mode)
            if self.last(ev.connection) in (ConnectionState.CLOSING, ConnectionState.CLOSED) and symex._CTX is not None:
                # the window of interest: the connection was (being) closed while on_peer_accepted was still awaiting this listener
                symex._CTX.reach('closed_while_init_listener_pending')
        self._keep = (on_state, on_msg, on_init)
        bus.register(ConnectionStateChangedEvent, on_state)
        bus.register(MessageReceivedEvent, on_msg)
        bus.register(PeerInitializedEvent, on_init)

    # ---- bookkeeping ----------------------------------------------------------------------------------
    def see(self, conn):
        self.conns.setdefault(id(conn), conn)

    def states(self, conn):
        return [s for _, s in self.reports.get(id(conn), [])]

    def last(self, conn):
        r = self.reports.get(id(conn))
        return r[-1][1] if r else None

    def closed_count(self, conn):
        return sum(1 for s in self.states(conn) if s == ConnectionState.CLOSED)

    def closed_seq(self, conn):
        """sequence number of the last CLOSED report if the connection is currently reported closed"""
        r = self.reports.get(id(conn))
        if r and r[-1][1] == ConnectionState.CLOSED:
            return r[-1][0]
        return None

    def messages(self, conn):
        return [m for _, m in self.delivered.get(id(conn), [])]

    # ---- clause 1-3: reports move forward, nothing after CLOSED -------------------------------------------
    def state_report(self, conn, state):
        if isinstance(conn, ListeningConnection):
            self.listening.setdefault(id(conn), []).append(state)      # not a clause of C10: recorded only
            return
        self.see(conn)
        seq = self.st.clock.tick()
        hist = self.reports.setdefault(id(conn), [])
        prev = hist[-1][1] if hist else ConnectionState.UNINITIALIZED
        hist.append((seq, state))
        kind = kind_of(conn)
        if prev == ConnectionState.CLOSED:
            if not (isinstance(conn, ServerConnection) and state == ConnectionState.CONNECTING):
                self.violations.append(('nothing_reported_after_closed', [kind, state.name],
                                        {'reports': [s.name for _, s in hist]}))
        elif RANK[state] <= RANK[prev]:
            self.violations.append(('state_reports_move_forward', [kind, prev.name, state.name],
                                    {'reports': [s.name for _, s in hist]}))

    # ---- clause 4a: no delivery after CLOSED ---------------------------------------------------------------
    def message(self, conn, msg):
        self.see(conn)
        seq = self.st.clock.tick()
        self.delivered.setdefault(id(conn), []).append((seq, msg))
        if self.last(conn) == ConnectionState.CLOSED:
            self.violations.append(('no_delivery_after_closed', [kind_of(conn)], {'message': type(msg).__qualname__}))

    # ---- clause 4b: no send after CLOSED --------------------------------------------------------------------
    def sends_after_closed(self):
        out = []
        for w in self.st.wires:
            conn = w.owner
            if conn is None:
                continue
            for seq, state in self.reports.get(id(conn), []):
                if state != ConnectionState.CLOSED:
                    continue
                nxt = [s for s, stt in self.reports[id(conn)] if s > seq]
                hi = nxt[0] if nxt else None       # (server) next life starts with the next report
                late = [s for s, _ in w.writer.written if s > seq and (hi is None or s < hi)]
                if late:
                    out.append((conn, len(late)))
        return out

    # ---- clause 5: registry == open or being opened ------------------------------------------------------------
    def registry_verdict(self):
        """[(conn, 'missing' | 'stale', why)] at a quiescent moment.  'open' and 'being opened' come from the fake
        transports / attempts; a connection whose transport we closed but whose CLOSED report is still outstanding
        (disconnect() waiting for the transport) may be either in or out."""
        reg = list(self.net.peer_connections)
        for x in reg:
            self.see(x)
        out = []
        if len({id(x) for x in reg}) != len(reg):
            out.append((None, 'duplicate', 'a connection is registered twice'))
        for conn in list(self.conns.values()):
            if not isinstance(conn, PeerConnection):
                continue
            wires = [w for w in self.st.wires if w.owner is conn]
            opening = any(a.owner is conn and a.status == 'pending' for a in self.st.attempts)
            is_open = any(w.open for w in wires)
            closing = any(w.writer.closed and not w.open for w in wires) and self.last(conn) != ConnectionState.CLOSED
            inreg = any(x is conn for x in reg)
            if self.last(conn) == ConnectionState.CLOSED:
                # CLOSED is final for a peer connection: it must be gone, whatever an orphaned attempt still does,
                # and it must not own an open transport
                if inreg:
                    out.append((conn, 'stale', 'reported_closed'))
                if is_open:
                    out.append((conn, 'missing', 'open_but_reported_closed'))
            elif is_open or opening:
                if not inreg:
                    out.append((conn, 'missing', 'open' if is_open else 'being_opened'))
            elif closing:
                pass
            elif inreg:
                # no transport, no pending attempt, never reported closed
                out.append((conn, 'stale', 'no_transport_no_attempt'))
        return out


def kind_of(conn):
    if isinstance(conn, ServerConnection):
        return 'server'
    if isinstance(conn, ListeningConnection):
        return 'listening'
    if isinstance(conn, PeerConnection):
        return 'incoming' if conn.incoming else 'outgoing'
    return type(conn).__name__


# --------------------------------------------------------------------------------------------------
# reference wire formats (from the protocol description; independent of aioslsk.protocol)
# --------------------------------------------------------------------------------------------------

def le(v, nb):
    if isinstance(v, SWord):
        if v.bits != 8 * nb:
            raise symex.HarnessError('le: width')
        return [codec._norm(z3.Extract(8 * i + 7, 8 * i, v.e)) for i in range(nb)]
    return list(int(v).to_bytes(nb, 'little'))


def text_terms(v):
    """byte terms of a text leaf (SStr: its raw bytes; str: UTF-8)"""
    if isinstance(v, codec.SStr):
        return list(v.raw.b)
    return list(v.encode('utf-8'))


def string(v):
    t = text_terms(v)
    return le(len(t), 4) + t


def frame(code_terms, payload):
    body = list(code_terms) + list(payload)
    return le(len(body), 4) + body


def peer_init(username, typ, ticket, ticket_bytes=4):
    return frame([1], string(username) + string(typ) + le(ticket, ticket_bytes))


def pierce_firewall(ticket):
    return frame([0], le(ticket, 4))


def peer_place_in_queue_reply(filename, place):      # peer code 44
    return frame(le(44, 4), string(filename) + le(place, 4))


def distributed_branch_level(level):                 # distributed code 4, int32 -> harness uses values as raw 4 bytes
    return frame([4], le(level, 4))


def server_get_user_status(username, status, privileged_byte):      # server code 7
    return frame(le(7, 4), string(username) + le(status, 4) + [privileged_byte])


def server_get_peer_address(username, ip_terms, port, obf_amount, obf_port16):     # server code 3; obfuscated port is a uint16
    return frame(le(3, 4), string(username) + list(reversed(list(ip_terms))) + le(port, 4) + le(obf_amount, 4) + le(obf_port16, 2))


def server_cannot_connect(ticket):                   # server code 1001
    return frame(le(1001, 4), le(ticket, 4))


def server_connect_to_peer(username, typ, ip_terms, port, ticket, privileged_byte, obf_amount, obf_port):   # server code 18
    return frame(le(18, 4), string(username) + string(typ) + list(reversed(list(ip_terms))) + le(port, 4) + le(ticket, 4)
                 + [privileged_byte] + le(obf_amount, 4) + le(obf_port, 4))


def obfuscate(plain, key_terms):
    return c02env.ref_obfuscate(plain, list(key_terms))


STUBS = [
    'asyncio.open_connection -> engine.c10env.Streams.open_connection: first treats its ARGUMENTS like the real call for an IP-literal '
    'host (port outside 0..65535 -> OverflowError, NUL in host -> ValueError, raised without yielding; the '
    'port is the possibly symbolic value that flowed from the wire, the range test forks), then a scripted attempt (answers ok / refused '
    'after an optional delay, or never) that suspends at least one loop iteration like the real call; the attempt records which '
    'DataConnection made it and whether it is pending, cancelled, refused, rejected or open',
    'asyncio.start_server -> engine.c02env.FakeServer (incoming() runs the real ListeningConnection.accept in a task like '
    'StreamReaderProtocol; an exception escaping it goes to the loop handler and closes the transport)',
    'StreamReader -> engine.c02env.FakeReader (byte terms; validated against asyncio.StreamReader in the prelude); StreamWriter -> '
    'engine.c10env.WireWriter: close() -> connection_lost on the next loop iteration -> reader EOF + wait_closed() returns; reset -> '
    'reader exception, drain()/wait_closed() raise; write() after close() is silently dropped (asyncio behaviour) and recorded; scripted '
    'faults: drain raises / never returns / returns or fails after a delay, wait_closed never returns / raises',
    'Network._expected_connection_futures -> engine.c10env.TicketMap while exploring (key comparison by == on symbolic tickets instead of '
    'hashing; the real dict in concrete replay)',
    'Network._ticket_generator -> generator of fresh pairwise distinct 32-bit values (symbolic; model values in replay)',
]
