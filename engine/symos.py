"""symos: the parts of `os` / `os.path` that directory scanning needs, on symbolic path strings.

Extends engine/sstr.py's OsShim / PathShim (which are not edited) with
  os.walk                    over sstr.SymFS (entry names may be SStr)
  os.path.commonpath         transcription of posixpath.commonpath
  os.path.relpath            transcription of posixpath.relpath (absolute arguments only: no cwd is modelled)
  os.path.getmtime           FsNode.tag holds the modification time of a file
Every structure-revealing step (where the separators are, whether two components are equal) is decided with
`bool(SBool)` / sstr._decide, i.e. forks through Ctx.branch, so on every path the result is what CPython computes
for every concrete string of that path.  The pure functions also run on plain `str` so that `selftest()` can
compare them with posixpath.
"""
from __future__ import annotations

import posixpath

from engine import sstr
from engine.sstr import SStr, HarnessError, _decide, eq


def _same(a, b) -> bool:
    """forking equality of two path components"""
    if isinstance(a, str) and isinstance(b, str) and not sstr.has_sym(a) and not sstr.has_sym(b):
        return a == b
    return _decide(eq(a, b))


def _isabs(p) -> bool:
    r = p.startswith('/')
    return r if isinstance(r, bool) else _decide(r)


def _parts(p):
    """non-empty, non-'.' components"""
    return [c for c in p.split('/') if len(c) > 0 and not _same(c, '.')]


def _join_parts(parts, keep):
    out = None
    for c in parts:
        out = c if out is None else out + '/' + c
    if out is None:
        return SStr(()) if keep else ''
    return out


def p_commonpath(paths):
    paths = tuple(paths)
    if not paths:
        raise ValueError('commonpath() arg is an empty sequence')
    keep = any(isinstance(p, SStr) for p in paths)
    absf = [_isabs(p) for p in paths]
    if len(set(absf)) != 1:
        raise ValueError("Can't mix absolute and relative paths")
    split = [_parts(p) for p in paths]
    # posixpath takes the common prefix of min() and max() of the component lists, which is the longest
    # prefix shared by all of them
    common = split[0]
    for other in split[1:]:
        n = 0
        while n < len(common) and n < len(other) and _same(common[n], other[n]):
            n += 1
        common = common[:n]
    body = _join_parts(common, keep)
    if absf[0]:
        return '/' + body if len(body) else (SStr(('/',)) if keep else '/')
    return body


def p_relpath(path, start):
    if len(path) == 0:
        raise ValueError('no path specified')
    if not _isabs(path) or not _isabs(start):
        raise HarnessError('relpath with a relative argument (no cwd is modelled)')
    keep = isinstance(path, SStr) or isinstance(start, SStr)
    start_list = [c for c in sstr.p_normpath(start).split('/') if len(c) > 0]
    path_list = [c for c in sstr.p_normpath(path).split('/') if len(c) > 0]
    i = 0
    while i < len(start_list) and i < len(path_list) and _same(start_list[i], path_list[i]):
        i += 1
    rel = ['..'] * (len(start_list) - i) + path_list[i:]
    if not rel:
        return SStr(('.',)) if keep else '.'
    return _join_parts(rel, keep)


class PathShim(sstr.PathShim):
    def commonpath(self, paths):
        return p_commonpath([self._a(p) for p in paths])

    def relpath(self, path, start=None):
        if start is None:
            raise HarnessError('relpath without start (no cwd is modelled)')
        return p_relpath(self._a(path), self._a(start))

    def getmtime(self, p):
        n = self._fs.lookup(self._a(p))
        if n is None:
            raise FileNotFoundError(2, 'No such file or directory')
        return n.tag if n.tag is not None else 0.0


class OsShim(sstr.OsShim):
    def __init__(self, fs):
        super().__init__(fs)
        self.path = PathShim(fs)

    def walk(self, top, topdown=True, onerror=None, followlinks=False):
        if not topdown:
            raise HarnessError('os.walk(topdown=False) is not modelled')
        top = PathShim._a(top)
        node = self._fs.lookup(top)
        if node is None or node.kind != 'd':
            return                      # os.walk ignores a top that cannot be listed
        yield from self._walk(top, node)

    def _walk(self, top, node):
        dirs = [(n, ch) for n, ch in node.entries if ch.kind == 'd']
        dirnames = [n for n, _ in dirs]
        filenames = [n for n, ch in node.entries if ch.kind == 'f']
        yield top, dirnames, filenames
        for n in dirnames:              # the caller may prune dirnames in place
            for m, ch in dirs:
                if m is n:
                    yield from self._walk(self.path.join(top, n), ch)
                    break


# ------------------------------------------------------------------------------
# self test against CPython (no symbolic context needed)
# ------------------------------------------------------------------------------

def selftest(alphabet='ab./', maxlen=4) -> list:
    import itertools
    import os
    import shutil
    import tempfile
    strings = [''.join(t) for n in range(1, maxlen + 1) for t in itertools.product(alphabet, repeat=n)]
    n = 0
    for a in strings:
        for b in strings:
            if len(a) + len(b) > maxlen + 3:
                continue
            try:
                want = posixpath.commonpath([a, b])
            except ValueError:
                want = ValueError
            try:
                got = p_commonpath([a, b])
            except ValueError:
                got = ValueError
            if got != want:
                raise HarnessError(f'symos: commonpath([{a!r}, {b!r}]): real {want!r} mine {got!r}')
            n += 1
            if a.startswith('/') and b.startswith('/'):
                if p_relpath(a, b) != posixpath.relpath(a, b):
                    raise HarnessError(f'symos: relpath({a!r}, {b!r}): real {posixpath.relpath(a, b)!r} mine {p_relpath(a, b)!r}')
                n += 1
    for trio in (['/a/b', '/a/bc', '/a/b/c'], ['/a', '/a/b', '/a/b'], ['/x/y', '/x/y/z', '/x']):
        if p_commonpath(trio) != posixpath.commonpath(trio):
            raise HarnessError(f'symos: commonpath({trio!r})')
        n += 1
    # walk / getmtime of the model against a real directory tree
    tmp = tempfile.mkdtemp(prefix='symos-')
    try:
        layout = {'r': ['f0'], 'r/Ro': ['f1', 'g1'], 'r/Rock': [], 'r/Rock/in': ['f2'], 'r/é (1)': ['f3']}
        fs = sstr.SymFS()
        for d, files in layout.items():
            os.makedirs(os.path.join(tmp, d), exist_ok=True)
            node = fs.mkdirs('/' + d)
            for f in files:
                open(os.path.join(tmp, d, f), 'w').close()
                fs.add(node, f, 'f', tag=1.0)
        shim = OsShim(fs)
        real = sorted((os.path.relpath(d, tmp), sorted(ds), sorted(fl)) for d, ds, fl in os.walk(os.path.join(tmp, 'r')))
        mine = sorted((posixpath.relpath(d, '/'), sorted(ds), sorted(fl)) for d, ds, fl in shim.walk('/r'))
        if real != mine:
            raise HarnessError(f'symos: walk differs: real {real} mine {mine}')
        if list(shim.walk('/nope')) != list(os.walk(os.path.join(tmp, 'nope'))):
            raise HarnessError('symos: walk of a missing directory')
        if shim.path.getmtime('/r/Ro/f1') != 1.0:
            raise HarnessError('symos: getmtime')
        n += 3
    finally:
        shutil.rmtree(tmp, ignore_errors=True)
    return [f'symos selftest: {n} comparisons of commonpath / relpath / walk with CPython agree']
