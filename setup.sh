#!/bin/bash
# builds the overlay venv offline: /venv's interpreter + site-packages, plus z3 / crosshair / jsonschema from the wheelhouse
set -e
cd "$(dirname "$0")"
if [ ! -x .venv/bin/python ] || ! .venv/bin/python -c "import z3, jsonschema" 2>/dev/null; then
  rm -rf .venv
  /venv/bin/python -m venv .venv
  echo "import site; site.addsitedir('/venv/lib/python3.12/site-packages')" > .venv/lib/python3.12/site-packages/_base.pth
  PIP_NO_INDEX=1 .venv/bin/pip install -q --no-index --find-links /opt/veriftools/wheels z3-solver crosshair-tool jsonschema
fi
.venv/bin/python -c "import z3, aioslsk, jsonschema; print('setup ok: z3', z3.get_version_string())"
