"""C09, second engine (DESIGN §2.6): the containment / regular-name predicate on the pure part of the naming
code (no directory access), as CrossHair contracts.  Run by props/c09.py:prelude in the thorough tier:
    crosshair check --report_all --per_condition_timeout N spec/c09_crosshair.py
The verdicts are recorded in the evidence as a second opinion; they do not change the exit code."""
import posixpath

from aioslsk.naming import DefaultNamingStrategy, KeepDirectoryStrategy, chain_strategies

DL = '/vdl/DL'


def _safe(strategies, remote_path: str) -> bool:
    try:
        d, f = chain_strategies(strategies, remote_path, DL)
    except IndexError:          # no path chosen
        return True
    if f in ('', '.', '..') or '/' in f or '\\' in f:
        return False
    return posixpath.normpath(posixpath.join(d, f)).startswith(DL + '/')


def default_only(remote_path: str) -> bool:
    """
    pre: len(remote_path) <= 6
    post: __return__
    """
    return _safe([DefaultNamingStrategy()], remote_path)


def default_then_keep_directory(remote_path: str) -> bool:
    """
    pre: len(remote_path) <= 6
    post: __return__
    """
    return _safe([DefaultNamingStrategy(), KeepDirectoryStrategy()], remote_path)


def keep_directory_then_default(remote_path: str) -> bool:
    """
    pre: len(remote_path) <= 6
    post: __return__
    """
    return _safe([KeepDirectoryStrategy(), DefaultNamingStrategy()], remote_path)
